"""Per-property run tables: which harness, which configurations, how many cases per shard and tier."""


def _c15(tier):
    q = tier == "quick"
    n = 6000 if q else 120000
    return [
        {"cfg": "dbg", "harness": "h_arith", "sub": "rational", "cases": n, "max_size": 160, "shards": 5, "budget_ms": 5000},
        {"cfg": "dbg", "harness": "h_arith", "sub": "inf_rational", "cases": n, "max_size": 160, "shards": 5, "budget_ms": 5000},
        {"cfg": "dbg", "harness": "h_arith", "sub": "lin", "cases": n, "max_size": 200, "shards": 6, "budget_ms": 5000},
    ]


PROPS = {
    "C15": {
        "runs": _c15,
        "rule": "Each case is 1-12 operator applications decoded from a rapidcheck-generated tape (operands: zero, small integers, fractions with "
                "numerator/denominator up to 2^15, non-reduced and negative-denominator constructor inputs, +-infinity where the operation is defined; "
                "all binary, compound, mixed I/rational, left/right scalar, unary and comparison operators of rational, inf_rational and lin). "
                "Oracle: GMP exact arithmetic + canonical-form check. Non-trivial: the case contains operands with different denominators > 1, or an infinity, "
                "or two inf_rationals with non-zero infinitesimal parts, or a lin operation with a non-zero constant on both sides / scaling or negating "
                "a lin with variables. Distinct: by hash of the rendered operation list.",
        "technique": "property-based testing (rapidcheck tapes, forked cases) against a GMP reference",
        "level_text": "Randomised search over operand values and all operator forms with an exact reference (GMP) and a canonical-form predicate; "
                      "~10^5 cases per quick run, ~2*10^6 per thorough run; failures shrink to a single operator application. Sampling, not proof: "
                      "a defect confined to one operand pair outside the generated shapes can be missed.",
        "level_note": "Trusted: GMP, the harness's decoding of operands, UBSan's overflow detection to delimit the overflow-free range the property is stated for.",
        "assumptions": ["GMP (mpq_class) is the reference", "operand magnitudes keep every intermediate inside 64 bits; a UBSan signed-overflow report discards the case",
                        "scalar / inf_rational is not generated: it is not a component-wise operation and nothing in the tree uses it"],
    },
}


def _net(prop, q_cases, t_cases, max_size, subs=(None,), budget_ms=20000, excl=()):
    def runs(tier):
        n = q_cases if tier == "quick" else t_cases
        per = max(1, 16 // len(subs))
        out = []
        for sb in subs:
            r = {"cfg": "dbg", "harness": "h_net", "cases": n, "max_size": max_size, "shards": per, "budget_ms": budget_ms, "excl": list(excl)}
            if sb:
                r["sub"] = sb
            out.append(r)
        return out
    return runs


PROPS["C13"] = {
    "runs": _net("C13", 700, 12000, 120),
    "rule": "Case: 2-8 boolean variables, 0-3 of them decided at root beforehand, then 1-5 requests among new_eq/new_conj/new_disj/new_at_most_one/new_exct_one "
            "with argument lists of length 0-12 (signs, duplicates, complementary pairs, TRUE/FALSE constants, root-decided arguments, results of earlier "
            "eq/conj/disj requests, repeated and permuted requests hitting the expression cache). Oracle on the ACTUAL encoding (clause database + root values, hook H2), "
            "decided by Z3 and an exhaustive enumeration of all assignments of the argument variables consistent with the root units: eq/conj/disj literal == formula in every "
            "model and every assignment extends to a model; cardinality literal true => constraint holds, and every assignment satisfying the constraint is compatible with the "
            "literal being true. Non-trivial: a root-decided argument, or >= 4 arguments (product encoding), or a repeated/permuted request. Distinct by rendered request list.",
    "technique": "property-based testing (rapidcheck tapes) with per-case exhaustive truth-table enumeration of the real encoding, Z3 as SAT oracle",
    "level_text": "Random request sequences; per case the space of argument assignments (<= 256) is enumerated completely against the clause database the code actually built. "
                  "Sampling over request shapes, exhaustive within a case.",
    "level_note": "Trusted: Z3 as a propositional SAT oracle, hook H2 (dump of clauses), set semantics for repeated arguments of cardinality constraints (DESIGN C13).",
    "assumptions": ["argument lists of cardinality constraints are read as sets of literals", "results of at-most-one/exactly-one are not used as arguments of other requests"],
}
PROPS["C14"] = {
    "runs": _net("C14", 500, 8000, 120),
    "rule": "Case: 1-4 object variables over values 0..4 (domains of 1-4 values: singleton, nested, overlapping, disjoint), 0-6 equality requests over all pairs "
            "(both orders, repeated), then 0-10 assume/pop steps on value and equality literals. Oracle on the actual encoding (H2 + Z3): exactly one allowed value in every model, "
            "equality literal == same value in every model, FALSE literal for disjoint domains, every combination of allowed values (enumerated exhaustively) has a model, "
            "allows() is the recorded literal / FALSE for foreign values; after every step value(v) == values whose literal is not false and every reported literal value is "
            "entailed. Non-trivial: >= 2 variables with partially overlapping domains and an equality, or a singleton or disjoint pair. Distinct by rendered case.",
    "technique": "property-based testing (rapidcheck tapes), exhaustive enumeration of value combinations per case, Z3 as SAT oracle on the real encoding",
    "level_text": "Random domains/equalities/histories; per case all value combinations are enumerated against the real clause database.",
    "level_note": "Trusted: Z3, hook H2. Variables created with enforce_exct_one=false (the planner's own path) are exercised at solver level, not here.",
    "assumptions": [],
}

NOT_CLAIMED = {}
