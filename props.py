"""Per-property run tables: which harness, which configurations, how many cases per shard and tier."""


def _c15(tier):
    q = tier == "quick"
    n = 6000 if q else 120000
    return [
        {"cfg": "dbg", "harness": "h_arith", "sub": "rational", "cases": n, "max_size": 160, "shards": 5, "budget_ms": 5000},
        {"cfg": "dbg", "harness": "h_arith", "sub": "inf_rational", "cases": n, "max_size": 160, "shards": 5, "budget_ms": 5000},
        {"cfg": "dbg", "harness": "h_arith", "sub": "lin", "cases": n, "max_size": 200, "shards": 6, "budget_ms": 5000},
    ]


PROPS = {
    "C15": {
        "runs": _c15,
        "rule": "Each case is 1-12 operator applications decoded from a rapidcheck-generated tape (operands: zero, small integers, fractions with "
                "numerator/denominator up to 2^15, non-reduced and negative-denominator constructor inputs, +-infinity where the operation is defined; "
                "all binary, compound, mixed I/rational, left/right scalar, unary and comparison operators of rational, inf_rational and lin). "
                "Oracle: GMP exact arithmetic + canonical-form check. Non-trivial: the case contains operands with different denominators > 1, or an infinity, "
                "or two inf_rationals with non-zero infinitesimal parts, or a lin operation with a non-zero constant on both sides / scaling or negating "
                "a lin with variables. Distinct: by hash of the rendered operation list.",
        "technique": "property-based testing (rapidcheck tapes, forked cases) against a GMP reference",
        "level_text": "Randomised search over operand values and all operator forms with an exact reference (GMP) and a canonical-form predicate; "
                      "~10^5 cases per quick run, ~2*10^6 per thorough run; failures shrink to a single operator application. Sampling, not proof: "
                      "a defect confined to one operand pair outside the generated shapes can be missed.",
        "level_note": "Trusted: GMP, the harness's decoding of operands, UBSan's overflow detection to delimit the overflow-free range the property is stated for.",
        "assumptions": ["GMP (mpq_class) is the reference", "operand magnitudes keep every intermediate inside 64 bits; a UBSan signed-overflow report discards the case",
                        "scalar / inf_rational is not generated: it is not a component-wise operation and nothing in the tree uses it"],
    },
}

NOT_CLAIMED = {}
