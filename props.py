"""Per-property run tables: which harness, which configurations, how many cases per shard and tier."""


def _c15(tier):
    q = tier == "quick"
    n = 6000 if q else 120000
    return [
        {"cfg": "dbg", "harness": "h_arith", "sub": "rational", "cases": n, "max_size": 160, "shards": 5, "budget_ms": 5000},
        {"cfg": "dbg", "harness": "h_arith", "sub": "inf_rational", "cases": n, "max_size": 160, "shards": 5, "budget_ms": 5000},
        {"cfg": "dbg", "harness": "h_arith", "sub": "lin", "cases": n, "max_size": 200, "shards": 6, "budget_ms": 5000},
        # the same cases and oracles under coverage-guided mutation of the tapes (libFuzzer, engine/pbt_fuzz.h; clang ASan+UBSan build)
        {"kind": "fuzz", "cfg": "fz", "harness": "fz_arith", "sub": "rational", "cases": 60000 if q else 3000000, "max_size": 256, "shards": 1 if q else 4},
        {"kind": "fuzz", "cfg": "fz", "harness": "fz_arith", "sub": "inf_rational", "cases": 40000 if q else 2000000, "max_size": 256, "shards": 1 if q else 4},
        {"kind": "fuzz", "cfg": "fz", "harness": "fz_arith", "sub": "lin", "cases": 40000 if q else 2000000, "max_size": 256, "shards": 1 if q else 4},
    ]


PROPS = {
    "C15": {
        "runs": _c15,
        "rule": "Each case is 1-12 operator applications decoded from a rapidcheck-generated tape (operands: zero, small integers, fractions with "
                "numerator/denominator up to 2^15, non-reduced and negative-denominator constructor inputs, +-infinity where the operation is defined; "
                "all binary, compound, mixed I/rational, left/right scalar, unary and comparison operators of rational, inf_rational and lin). "
                "Three more sub-runs feed the same case decoder and the same oracles from libFuzzer (the fuzzer's bytes are the tape; clang ASan+UBSan build; in-process): coverage feedback "
                "steers the tapes into the special-case branches of the operators (integer fast paths, infinities, zero coefficients). "
                "Oracle: GMP exact arithmetic + canonical-form check. Non-trivial: the case contains operands with different denominators > 1, or an infinity, "
                "or two inf_rationals with non-zero infinitesimal parts, or a lin operation with a non-zero constant on both sides / scaling or negating "
                "a lin with variables. Distinct: by hash of the rendered operation list.",
        "technique": "property-based testing (rapidcheck tapes, forked cases) against a GMP reference, plus coverage-guided fuzzing (libFuzzer) of the same tapes and oracles in-process",
        "level_text": "Randomised search over operand values and all operator forms with an exact reference (GMP) and a canonical-form predicate; "
                      "~10^5 cases per quick run, ~2*10^6 per thorough run; failures shrink to a single operator application. Sampling, not proof: "
                      "a defect confined to one operand pair outside the generated shapes can be missed.",
        "level_note": "Trusted: GMP, the harness's decoding of operands, UBSan's overflow detection to delimit the overflow-free range the property is stated for.",
        "assumptions": ["GMP (mpq_class) is the reference", "operand magnitudes keep every intermediate inside 64 bits; a UBSan signed-overflow report discards the case",
                        "scalar / inf_rational is not generated: it is not a component-wise operation and nothing in the tree uses it"],
    },
}


def _net(prop, q_cases, t_cases, max_size, subs=(None,), budget_ms=20000, excl=()):
    def runs(tier):
        n = q_cases if tier == "quick" else t_cases
        per = max(1, 16 // len(subs))
        out = []
        for sb in subs:
            r = {"cfg": "dbg", "harness": "h_net", "cases": n, "max_size": max_size, "shards": per, "budget_ms": budget_ms, "excl": list(excl)}
            if sb:
                r["sub"] = sb
            out.append(r)
        return out
    return runs


PROPS["C13"] = {
    # half of the shards probe the shared expression cache with sibling constructs (option xkind, not carried by older tapes)
    "runs": (lambda base: (lambda tier: [dict(r, shards=8) for r in base(tier)] + [dict(r, shards=8, opts={"xkind": "1"}) for r in base(tier)]))(_net("C13", 700, 12000, 120)),
    "rule": "Case: 2-8 boolean variables, 0-3 of them decided at root beforehand, then 1-5 requests among new_eq/new_conj/new_disj/new_at_most_one/new_exct_one "
            "with argument lists of length 0-12 (signs, duplicates, complementary pairs, TRUE/FALSE constants, root-decided arguments, results of earlier "
            "eq/conj/disj requests, repeated and permuted requests hitting the expression cache; in half of the shards also the same argument list under the sibling construct - "
            "conj <-> disj, at-most-one <-> exactly-one - because the cache is shared by all constructs). Oracle on the ACTUAL encoding (clause database + root values, hook H2), "
            "decided by Z3 and an exhaustive enumeration of all assignments of the argument variables consistent with the root units: eq/conj/disj literal == formula in every "
            "model and every assignment extends to a model; cardinality literal true => constraint holds, and every assignment satisfying the constraint is compatible with the "
            "literal being true. Non-trivial: a root-decided argument, or >= 4 arguments (product encoding), or a repeated/permuted request. Distinct by rendered request list.",
    "technique": "property-based testing (rapidcheck tapes) with per-case exhaustive truth-table enumeration of the real encoding, Z3 as SAT oracle",
    "level_text": "Random request sequences; per case the space of argument assignments (<= 256) is enumerated completely against the clause database the code actually built. "
                  "Sampling over request shapes, exhaustive within a case.",
    "level_note": "Trusted: Z3 as a propositional SAT oracle, hook H2 (dump of clauses), set semantics for repeated arguments of cardinality constraints (DESIGN C13).",
    "assumptions": ["argument lists of cardinality constraints are read as multisets of literals (the language's truth table of a ^ a decides)", "results of at-most-one/exactly-one are not used as arguments of other requests"],
}
PROPS["C14"] = {
    "runs": _net("C14", 500, 8000, 120),
    "rule": "Case: 1-4 object variables over values 0..4 (domains of 1-4 values: singleton, nested, overlapping, disjoint), 0-6 equality requests over all pairs "
            "(both orders, repeated), then 0-10 assume/pop steps on value and equality literals. Oracle on the actual encoding (H2 + Z3): exactly one allowed value in every model, "
            "equality literal == same value in every model, FALSE literal for disjoint domains, every combination of allowed values (enumerated exhaustively) has a model, "
            "allows() is the recorded literal / FALSE for foreign values; after every step value(v) == values whose literal is not false and every reported literal value is "
            "entailed. Non-trivial: >= 2 variables with partially overlapping domains and an equality, or a singleton or disjoint pair. Distinct by rendered case.",
    "technique": "property-based testing (rapidcheck tapes), exhaustive enumeration of value combinations per case, Z3 as SAT oracle on the real encoding",
    "level_text": "Random domains/equalities/histories; per case all value combinations are enumerated against the real clause database.",
    "level_note": "Trusted: Z3, hook H2. Variables created with enforce_exct_one=false (the planner's own path) are exercised at solver level, not here.",
    "assumptions": [],
}

_NET_TRUST = ("Trusted: Z3 4.8.12 (QF_LRA / QF_IDL / propositional) as decision procedure, the harness's own Floyd-Warshall and GMP arithmetic, hooks H1/H2 "
              "(learnt-clause callback, dumps of clauses / LRA assertions / DL constraints). One-directional cardinality literals are judged under the reading most "
              "favourable to the code (inferences against the equivalence, verdicts against the implication).")


def _c07(tier):
    q = tier == "quick"
    return [
        {"cfg": "dbg", "harness": "h_net", "sub": "sat", "cases": 1000 if q else 12000, "max_size": 1500, "shards": 8, "budget_ms": 30000},
        {"cfg": "dbg", "harness": "h_net", "sub": "mixed", "cases": 1000 if q else 12000, "max_size": 800, "shards": 8, "budget_ms": 30000},
    ]


PROPS["C07"] = {
    "runs": _c07,
    "rule": "Case: a history on a sat_core with LRA, OV, IDL and RDL theories bound as in ratio::core. Up to 3 rounds of [creation at root: booleans, numeric variables, "
            "relation / distance / object-equality / reified literals, clauses, 3-literal clauses near the satisfiability threshold, simplify_db][search: assume (biased to "
            "unassigned and theory literals), pop, multi-level pop, next, check, propagate]. Sub-run 'sat' is purely propositional with 8-14 variables and long searches. "
            "Oracles after every operation (Z3 over the literals' claimed meanings): S1 every reported literal value is entailed by clauses + theories + standing decisions "
            "(vacuity-aware); S2 every false answer of new_clause/propagate/next/assume/check is justified by unsatisfiability; S3 a total assignment after successful propagation "
            "is a model; S4 (hook H1) every clause learnt from a conflict or recorded by a theory is entailed at the moment it is learnt; clauses added by next() are added to the model. "
            "Non-trivial: the history contains a learnt clause of >= 2 literals, a backjump over >= 2 levels, or a theory lemma. Distinct by rendered history.",
    "technique": "stateful property-based testing (rapidcheck tapes -> operation histories) against a Z3 reference model, with a learnt-clause entailment oracle through a guarded hook",
    "level_text": "Random API histories respecting the asserted preconditions, every observable compared with an independent decision procedure after every step. "
                  "Sampling of histories (10^4 quick, 3*10^5 thorough); no completeness of propagation is demanded.",
    "level_note": _NET_TRUST,
    "assumptions": ["histories respect the asserted preconditions: creation only at root, assume only with an empty propagation queue, next() only when the last decision was on an unassigned literal",
                    "a history stops at the first root-level false (dead network by contract)"],
}
PROPS["C08"] = {
    "runs": _net("C08", 900, 18000, 800),
    "rule": "Histories as in C07 (all four theories) biased to assumption chains over FAMILIES of literals that tighten the same LRA bound or the same DL distance at "
            "successive levels, interleaved with conflicts, next() and multi-level pops. Oracle 'state is a function of the literals currently assigned', recomputed from scratch "
            "after every operation: LRA lb/ub of every variable == tightest bound among the currently assigned assertion literals and the creation bounds; IDL/RDL distance(i,j) and "
            "bounds(i) == Floyd-Warshall closure of the currently assigned (and negated) constraints; OV value(v) == values whose literal is not false; every reported literal value "
            "entailed by clauses + current decisions (stale assignments surviving a pop fail this). Non-trivial: one pop/backjump undid >= 2 updates of the same bound or distance that "
            "were made at >= 2 different levels (measured by observing the bounds after every step). Distinct by rendered history.",
    "technique": "stateful property-based testing with a from-scratch reference state (own Floyd-Warshall / bound maxima / Z3 entailment) compared after every step",
    "level_text": "Random assume/pop/next histories; all API-visible state compared exactly with a model that never took the undone decisions. Internal undo state that no API "
                  "exposes (predecessors, responsible constraints) is seen only through later explanations (C10).",
    "level_note": _NET_TRUST,
    "assumptions": ["LRA bounds are compared through lb()/ub(), which only change by assertion (the theory never tightens a variable's bound by row propagation)"],
}
PROPS["C09"] = {
    "runs": (lambda base: (lambda tier: [dict(r, shards=8) for r in base(tier)] + [dict(r, shards=8, opts={"setb": "1"}) for r in base(tier)]))(_net("C09", 900, 18000, 500)),
    "rule": "Histories restricted to booleans + LRA: 1-6 variables plus derived variables new_var(lin) (half of the shards: more of them, and bounds set directly through the public "
            "set_lb / set_ub at root level with values the model allows - the call and the following propagation must succeed and the bound joins the model; bounds with an arbitrary "
            "root-assigned reason literal and arbitrary, possibly infeasible values - the explanation a failing call leaves behind must follow from the constraints and 'reason => bound'; "
            "and a client theory that plays the executor's protocol: 'whenever literal p is true, x >= c', set from its propagate() callback with p as the reason, a failing call handing "
            "the theory's explanation to the sat core as the client's conflict, so that wrong explanations surface as learnt clauses that are not entailed), relation literals (5 relations, expression shapes: constants, single "
            "variable, sums of 2-4 terms with coefficients in +-{1,2,3,1/2,1/3}, repeated/cancelling variables, constants up to 20), implications between relation literals, "
            "assume/negate/pop/next/check orders. Oracles after every successful propagation: every assigned relation literal holds/fails on value() with infinitesimal semantics "
            "(exact GMP evaluation); every assigned theory atom (dump H2) holds on the slack's value; every derived/slack variable equals its defining expression; lb <= value <= ub; "
            "bounds contain every real solution (Z3); every theory conflict / lemma (H1) is entailed; every false answer is justified by infeasibility (Z3). "
            "Non-trivial: a pivot happened (an original variable became basic) and at least one theory conflict or lemma occurred. Distinct by rendered history.",
    "technique": "stateful property-based testing against exact GMP evaluation and Z3 (QF_LRA) as complete reference",
    "level_text": "Random constraint systems and assertion orders; model check of the reported values and validity check of every explanation. Termination of simplex is only "
                  "covered by the per-case budget (budget hits are inconclusive).",
    "level_note": _NET_TRUST,
    "assumptions": ["a false equality literal is an undecided disjunction: nothing is demanded of the values for it"],
}
PROPS["C10"] = {
    "runs": _net("C10", 1000, 12000, 400, subs=("idl", "rdl")),
    "rule": "Histories restricted to booleans + IDL (sub-run idl) or RDL (sub-run rdl): 2-24 time points (growth beyond the initial 16x16 matrix), distance constraints "
            "to - from <= d (RDL: rational d, strict via -eps), several constraints per ordered pair, both directions, implications between constraint literals, assume / negate / pop / next. "
            "Oracles after every successful propagation, against own Floyd-Warshall over exact (rational + k*eps) weights: distance(i,j) and bounds(i) equal the closure of the currently "
            "assigned (negated: from - to <= -d-1 resp. -d-eps) constraints; no negative cycle in a non-conflicting state; no undecided constraint is decided by the distances "
            "(propagation completeness); every explanation (H1) is entailed (Z3); nothing else is inferred (S1). Non-trivial: >= 3 points and >= 1 theory conflict or propagated literal. "
            "Distinct by rendered history.",
    "technique": "stateful property-based testing against an own all-pairs-shortest-path reference and Z3 (QF_IDL/QF_RDL) for explanations",
    "level_text": "Random difference-constraint histories compared exactly with the closure of the asserted constraints after every step.",
    "level_note": _NET_TRUST,
    "assumptions": ["IDL constants stay below 2^31; idl_theory::inf() is read as +infinity"],
}

PROPS["C11"] = {
    "runs": _net("C11", 600, 12000, 300),
    "rule": "Case: 1-5 LRA variables; 2-14 root-level steps among: request a relation literal (5 relations x expression shapes of C09, 1/4 of them an equivalent re-request: "
            "scaled by a positive constant), assert a returned literal (or its negation) at root so that root bounds tighten, an assume/pop episode that pivots the tableau so later "
            "requests meet basic variables, creation of a derived variable. Oracles: constant answer (TRUE/FALSE or a root-decided literal) => Z3: the root constraints entail / refute "
            "the relation; an already known literal => old meaning <=> new relation under the root constraints; requesting changes no pre-existing root value and keeps a satisfiable "
            "network consistent; afterwards each fresh literal and its negation is assumed: accepted => values satisfy / falsify the relation (exact evaluation) and, the state being "
            "conjunctive, acceptance <=> feasibility (Z3); a refusal is justified by infeasibility. Non-trivial: a constant answer, a shared literal, or a request over a basic variable.",
    "technique": "property-based testing against Z3 (QF_LRA) and exact GMP evaluation; metamorphic re-requests (scaled-equivalent relations)",
    "level_text": "Random request sequences at root level; meaning of every returned literal compared with an independent decision procedure in both directions.",
    "level_note": _NET_TRUST,
    "assumptions": [],
}
PROPS["C12"] = {
    "runs": _net("C12", 500, 10000, 300, subs=("idl", "rdl")),
    "rule": "Case: 2-6 time points of IDL (sub-run idl) or RDL (sub-run rdl), a consistent root state of 0-6 asserted distance constraints (some points bounded, some not), then "
            "2-10 steps: relation requests over all 5 relations x {constants, c*x+k on either side, c*x+k vs c*y+k', c*(x-y)+k on one side} x c in +-{1,2,3,1/2} x integer / half-integer k, "
            "plus shapes outside difference logic; or queries bounds(lin), distance(lin,lin), equates(lin,lin). Oracles: constant answer => Z3 entails/refutes; fresh literal => "
            "assuming it / its negation is accepted exactly when feasible (Z3) and the distances then equal the Floyd-Warshall closure; IDL may throw std::invalid_argument only when the "
            "normalised constant is not an integer, shapes outside difference logic must be rejected with std::invalid_argument; queries equal the interval image of the expression "
            "under the variable-level distance(var,var) (finite sides only), equates == (0 in that interval). Non-trivial: two variables with the larger id first, negative c, a strict "
            "relation, or a non-zero k.",
    "technique": "property-based testing against Z3 (QF_IDL / QF_LRA), own Floyd-Warshall and exact interval arithmetic",
    "level_text": "Random root states and requests; every sign / arity branch of the hand-written case analysis is reached many times per run (class histogram in the evidence).",
    "level_note": _NET_TRUST,
    "assumptions": ["for IDL, non-integer c or k may be rejected; if a value is returned it must be exact"],
}


def _c16(tier):
    q = tier == "quick"
    return [
        {"cfg": "dbg", "harness": "h_lang", "sub": "lexer", "cases": 8000 if q else 100000, "max_size": 200, "shards": 5, "budget_ms": 10000},
        {"cfg": "dbg", "harness": "h_lang", "sub": "group", "cases": 8000 if q else 100000, "max_size": 200, "shards": 5, "budget_ms": 10000},
        {"cfg": "dbg", "harness": "h_lang", "sub": "accept", "cases": 8000 if q else 100000, "max_size": 250, "shards": 6, "budget_ms": 10000},
        # the same three sub-checks under coverage-guided mutation of the tapes (libFuzzer, engine/pbt_fuzz.h)
        {"kind": "fuzz", "cfg": "fz", "harness": "fz_tlang", "sub": "lexer", "cases": 30000 if q else 1500000, "max_size": 400, "shards": 1 if q else 4},
        {"kind": "fuzz", "cfg": "fz", "harness": "fz_tlang", "sub": "group", "cases": 30000 if q else 1500000, "max_size": 400, "shards": 1 if q else 4},
        {"kind": "fuzz", "cfg": "fz", "harness": "fz_tlang", "sub": "accept", "cases": 30000 if q else 1500000, "max_size": 500, "shards": 1 if q else 4},
    ]


PROPS["C16"] = {
    "runs": _c16,
    "rule": "(The three parser-level sub-checks also run as libFuzzer targets: the fuzzer's bytes are the tape, same decoders and oracles, clang ASan+UBSan build.) "
            "Three parser-level sub-checks (evaluation of constant expressions is checked on solved programs, see the eval sub-run when present). lexer: 1-30 tokens over every keyword, "
            "operator, punctuation, identifiers shaped like keyword prefixes / extensions / one-letter variants, integer, real (d+.d+ and .d+) and string literals with escapes, rendered "
            "with random legal separators (blanks, tabs, CR/LF, line and block comments) or none where unambiguous; the lexer must return exactly the kinds and payloads written. "
            "group: 1-3 random expression trees over all unary / binary / n-ary operators, casts, constructor and function calls, printed with minimal and with redundant parentheses "
            "(never around a bare identifier), parsed with a subclass of riddle::parser whose factory methods build an S-expression; must equal the tree under the parser's documented "
            "precedence (== != < relational/logical < + - < * / < unary) and left associativity, with chains of one n-ary operator flattened. accept: programs derived from every "
            "declaration and statement production of the parser (typedef, enum unions, classes with bases / fields / constructors with initialiser lists / methods / predicates / nested "
            "types, predicates with supertypes, local fields, assignments, expression statements starting with every admissible token, blocks, disjunctions with costs, facts / goals "
            "with scopes, return) must parse without exception. Non-trivial: lexer - a keyword-like identifier or a comment separator; group - depth >= 2 over >= 2 precedence levels; "
            "accept - a method, a constructor or a disjunction. Distinct by rendered input.",
    "technique": "property-based testing: token-list round-trip, expression-tree print/parse round-trip, grammar-based program generation",
    "level_text": "Random token lists, expression trees and grammar-derived programs (10^4-10^5 per sub-check and run). There is no language specification in the repository: "
                  "'documented' precedence is the parser's own table as quoted in the property.",
    "level_note": "Trusted: the harness's printer / normaliser; `this` is accepted as identifier or THIS_ID; a parenthesised bare identifier is never generated (by construction ambiguous with a cast).",
    "assumptions": ["parser-level only in this run table; literals stay within 18 digits"],
}


def _c18(tier):
    q = tier == "quick"
    return [
        {"cfg": "dbg", "harness": "h_lang", "sub": "bytes", "cases": 3000 if q else 80000, "max_size": 220, "shards": 8, "budget_ms": 10000},
        {"cfg": "dbg", "harness": "h_net", "sub": "mixed", "cases": 350 if q else 8000, "max_size": 800, "shards": 8, "budget_ms": 30000, "leak": True, "opts": {"leakcheck": "1"},
         "replay_args": ["--crash-violation"]},
    ]


PROPS["C18"] = {
    "runs": _c18,
    "rule": "bytes (riddle::parser::parse on arbitrary text): token soup over the language's characters incl. quotes, comment openers, huge numerals, control and non-ASCII bytes; and "
            "grammar-derived valid programs, unchanged or with 1-3 mutations (truncation at a byte, chunk deleted / duplicated, unterminated string / comment inserted, huge numeral, long "
            "decimal, non-ASCII byte, structural character replaced). Every case runs in a forked child of the Debug+ASan+UBSan build: a normal return or a std::exception is fine; a signal, "
            "assertion, std::terminate, sanitizer report or a CPU budget hit (10 s for <= 4 KiB of input; lexer and parser are linear) is a violation after three reproductions. "
            "network (valid API histories of C07 with all theories, oracles off, LeakSanitizer at process end): any abnormal termination or leak is a violation. "
            "Non-trivial: bytes - input of >= 12 bytes; network - the history contains a conflict with a learnt clause, a backjump or a theory lemma. Distinct by input text / rendered history.",
    "technique": "property-based fuzzing with a grammar-based mutator and sanitizers (crash / hang / leak oracle in forked children) plus a coverage-guided libFuzzer campaign on the reader with metamorphic and leak oracles in the target",
    "level_text": "Generated invalid, truncated and valid inputs under ASan/UBSan/assertions; bounded time approximated by a generous CPU budget.",
    "level_note": "Trusted: sanitizers and assertions as crash oracles; CPU-time budget (RLIMIT_CPU) rather than wall clock, so load cannot produce an alarm. Valid programs through read()+solve() "
                  "are exercised by the solver-level runs when present.",
    "assumptions": ["a byte 0xFF ends the input for the lexer (it is its end-of-input sentinel); this is treated as clean termination"],
}

# exclusion predicates of the typed problem generator (one per known finding, see known_findings.jsonl and DESIGN.md section 5);
# they are switched on for every solver-level run so that the search continues behind the confirmed findings
GEN_EXCL = ["relations_only_positive", "disjunction_only_asserted", "object_constraints_consistent", "rr_single_atom_fits_every_candidate", "one_atom_per_tau_variable", "one_delay_per_tick", "adapt_only_last_pending", "adapt_counts_unified_atoms"]
QUICK_CFGS = ["dbg", "dbg-hadd-ci"]
ALL_CFGS = ["dbg", "dbg-hadd", "dbg-ci", "dbg-hadd-ci", "rel", "rel-hadd", "rel-ci", "rel-hadd-ci"]


def _prob(prop, q_cases, t_cases, max_size=300, layers=(None,), budget_ms=20000, extra_opts=None, l0_mult=1):
    def runs(tier):
        cfgs = QUICK_CFGS if tier == "quick" else ALL_CFGS
        n = q_cases if tier == "quick" else t_cases
        combos = [(c, l) for c in cfgs for l in layers]
        per = max(1, 16 // len(combos))
        out = []
        for c, l in combos:
            r = {"cfg": c, "harness": "h_prob", "cases": n * (l0_mult if l == "L0" else 1), "max_size": max_size, "shards": per * (2 if (l == "L0" and l0_mult > 1) else 1), "budget_ms": budget_ms,
                 "excl": list(GEN_EXCL),
                 "opts": dict(extra_opts or {})}
            if l:
                r["opts"]["layer"] = l
            out.append(r)
        return out
    return runs


_PROB_TRUST = ("Trusted: the harness's typed generator / printer / exact evaluator (GMP), Z3 for the constraint-only fragment, the solver's public API for reading the solution "
               "(get, arith_value, sat value of sigma, ov value). Shapes covered by the known findings KF1-KF4 are excluded by named generator predicates and represented by their replay files.")

PROPS["C01"] = {
    "runs": _prob("C01", 1000, 20000, layers=("L0", "L1", "L1m", "L3", "L2p", "L3b"), l0_mult=4, budget_ms=10000),
    "rule": "Typed RIDDLE problems generated with a printer and an exact evaluator, read and solved in-process (solver::read + solve) in each configuration of the run "
            "(quick: Debug h_max and Debug h_add + CHECK_INCONSISTENCIES; thorough: all 8 of h_max/h_add x CI off/on x Debug/Release). Layers: L0 real/int/bool variables, linear "
            "relations with rational coefficients (products with constants on either side, division, unary +/-), & | -> ^ ! == != between booleans, disjunction statements; "
            "L1 adds class hierarchies, instances, object variables, field accesses through variables, object (dis)equalities; L3 adds state-variable and reusable-resource timelines; "
            "L2p: planted rule problems whose goals interact through one shared variable (real n in [lo, hi]; predicates P(real x) { x ==|<=|>= n; }; 2-4 goals with 2-3 alternative "
            "subgoals P(x: v) - or, one disjunct in three, the constraint v ==|<=|>= n itself -, one of them true under the witness value of n, the others clashing with other goals' choices or dead ends outside n's bounds) - here the constraint in "
            "the rule body of every active atom is re-evaluated on the reported values; L1m: top-level methods, among them a method without a return value whose body states a "
            "constraint on its argument - calling it asserts that constraint, so a problem in which it contradicts the pinned value of the argument must not come back solved. "
            "About 2/3 of the problems are planted around a witness. Oracle when solve() returns true: every asserted constraint evaluates to true (three-valued, exact arithmetic "
            "with infinitesimals) on the reported values, for EVERY remaining value of the object variables it mentions; at least one disjunct of every disjunction statement holds. "
            "The second observation channel of the property, the JSON of core::to_json() (what `oRatio <files> <out.json>` writes), is compared with the API on every solution: value of "
            "every named numeric / boolean variable and of every atom parameter, state of every atom, and value within the lb/ub the JSON itself reports (counter json_values_compared). "
            "Non-trivial: solved and a relation over >= 2 variable occurrences, a disjunction statement or an object variable was evaluated. Distinct by program text.",
    "technique": "property-based testing with a typed program generator and an exact re-evaluation of the reported solution; configuration matrix",
    "level_text": "Random well-typed programs; the reported solution is re-evaluated against the program by an independent evaluator. Rule bodies are covered for smart-type predicates through "
                  "the plan validators (C04-C06); constraints inside user rule bodies are re-evaluated for the rule shapes of layer L2p and of C03's generator only (no hook H3 was built).",
    "level_note": _PROB_TRUST,
    "assumptions": ["int variables are LRA reals without integrality", "constraints in user-defined rule bodies are re-evaluated only for the generated rule shapes (L2p here, C03's rules there)"],
}
PROPS["C02"] = {
    "runs": _prob("C02", 800, 20000, layers=("L0", "L1", "L1b", "L3", "L2p", "L3b", "L3d"), l0_mult=2, budget_ms=10000),
    "rule": "Same generator as C01. (a) Free problems of layers L0/L1 are translated to Z3 (reals, booleans, finite-domain integers for object variables, field accesses as ite chains): "
            "'unsolvable' (false from solve(), unsolvable / inconsistency exception from read() or solve()) while Z3 finds a model is a violation. (b) Planted problems of all layers "
            "(a witness assignment / schedule is drawn first and every emitted constraint is true under it; layer L2p: rule problems with alternative subgoals interacting through a shared "
            "variable, some alternatives dead ends, so that the first causal graph is often insufficient) must never be declared unsolvable. Non-trivial: the verdict was unsolvable, or the "
            "problem was planted. Distinct by program text. (c) For every third L0/L1 program (chosen by a hash of its text) three semantically equivalent formulations are solved as well - every "
            "generated identifier renamed consistently, tautologies appended ('true;', 'x <= x + 1.0;', 'b -> b;'), the independent single-line statements of the second read() in reverse "
            "order - and must get the verdict of the original (counter metamorphic_variants). The learnt-clause entailment oracle at solver level was not built; learnt clauses are "
            "checked at network level (C07, C09, C10).",
    "technique": "property-based testing: differential against Z3 on the decidable fragment, planted solutions elsewhere, metamorphic relation over equivalent formulations",
    "level_text": "Ground truth is complete only for the constraint fragment; for timelines only planted problems are judged. A wrong 'unsolvable' on an unplanted planning problem is invisible.",
    "level_note": _PROB_TRUST,
    "assumptions": ["search is bounded by a 20 s CPU budget per case; budget hits are inconclusive"],
}
PROPS["C04"] = {
    "runs": _prob("C04", 1500, 40000, layers=("L3", "L3d"), budget_ms=8000),
    "rule": "Planted timeline problems: 1-2 StateVariable subclasses with 1-2 predicates (optional minimal duration), 1-3 instances each, optional object variables over the instances, "
            "optional reusable resources; 2-7 facts / goals addressed to an instance or through a variable (tau still a variable), times given as arguments, as windows "
            "(start >= a, end <= b, duration >= d) or left free, zero-length atoms, atoms touching at an endpoint, explicit precedences, bounded horizon. Oracle on every reported solution: "
            "for each state-variable instance no two Active atoms whose tau allows that instance have max(start) < min(end) (exact, infinitesimal-aware). Non-trivial: >= 2 active atoms on "
            "one instance. Second clause of the statement: the timeline solver::extract_timelines() returns for each state-variable instance is compared with the atoms read through the API: "
            "its segments are exactly the intervals between consecutive distinct pulses (origin, horizon, starts and ends of the active atoms that may be on the instance), each segment lists "
            "exactly the atoms covering it, and never more than one (counter extracted_segments_compared). Layer L3d (half of the shards): atoms that become active only through a search decision - 1-2 pinned facts on a "
            "state variable and a disjunction statement with 2-3 branches, each placing one more pinned fact or goal on it; a branch is dead when its atom overlaps a pinned fact; with "
            "one free branch the problem must be solved without overlap (the state variable has to prune the dead branches the search tries first), with dead branches only it must "
            "not be reported solved. Distinct by program text. All configurations of the run's matrix.",
    "technique": "property-based testing with planted schedules; validity predicate over the reported plan",
    "level_text": "Random timeline problems; every reported plan is validated independently. Only reported solutions are judged. The timelines of solver::extract_timelines() are compared segment by segment with the atoms (added in the second build session).",
    "level_note": _PROB_TRUST,
    "assumptions": [],
}
PROPS["C05"] = {
    "runs": _prob("C05", 1500, 40000, layers=("L3",), budget_ms=8000),
    "rule": "Generator of C04 biased to 1-3 ReusableResource instances with capacities in {0, 1, 3/2, 2, 4, 10} and Use atoms with amounts in {0, 1/2, 1, 2, 4, 5, exactly the remaining "
            "capacity}, resource fixed or a variable. Oracle on every reported solution: at every start pulse of an active Use atom the exact sum of the amounts of the active atoms with "
            "start <= p < end whose tau allows the resource is <= the resource's capacity, and the reported capacity equals the declared one. Second clause of the statement: in the timeline "
            "solver::extract_timelines() returns for the resource, the segments are the intervals between consecutive pulses, each lists exactly the covering atoms, its usage equals the "
            "exact sum of their amounts and is <= the capacity it reports, which equals the instance's (counter extracted_segments_compared). Non-trivial: >= 2 atoms overlap on one resource "
            "or >= 2 active atoms. Distinct by program text.",
    "technique": "property-based testing with planted schedules; exact sweep over the reported plan",
    "level_text": "As C04; the per-segment usage of extract_timelines() is compared with an exact sum over the atoms.",
    "level_note": _PROB_TRUST,
    "assumptions": [],
}
PROPS["C06"] = {
    "runs": _prob("C06", 1500, 40000, layers=("L3", "L3b"), budget_ms=8000),
    "rule": "Generator of C04/C05 (facts and goals on state variables and reusable resources, whose Interval rule is applied implicitly to facts). Oracle on every reported solution, for every "
            "Active atom read back through the predicates' instance lists: origin <= start <= end <= horizon, duration == end - start, duration >= 0 (exact). Non-trivial: >= 2 active atoms. "
            "Distinct by program text. Layer L3b (half of the shards): atoms that are NOT on state variables / reusable resources - 1-2 plain predicates extending Interval (empty body or "
            "duration >= d, optionally a rule that introduces another interval atom starting at their end), a plain Impulse predicate, a plain class declaring an interval and an impulsive predicate, an Agent subclass with an interval and an "
            "impulsive predicate on 1-2 agents, Produce / Consume atoms on a ConsumableResource; 1-6 facts and goals with constant times, start + duration, windows or free times, "
            "zero-length atoms, bounded horizon; planted around a witness placement, and 1 in 5 problems ill-formed on purpose (constant start after end, impulse beyond the horizon: must "
            "not come back solved with that atom active). Same oracle, plus origin <= at <= horizon for impulses.",
    "technique": "property-based testing; validity predicate over the reported plan",
    "level_text": "As C04.",
    "level_note": _PROB_TRUST,
    "assumptions": [],
}
PROPS["C17"] = {
    "runs": _prob("C17", 2000, 40000, layers=("L1", "L1b")),
    "rule": "Programs with 1-5 classes (0-2 supertypes each, diamonds included), 0-2 real fields per class set by field initialisers or by constructor parameters through initialiser "
            "lists that call the supertype constructors, 0-2 enums with unions, instances and object / enum variables interleaved so that domains depend on the point of declaration, "
            "then constraints through field accesses on single- and multi-valued variables and object (dis)equalities. The declarations are read first; oracle right after that read(): "
            "the domain of every declared variable (ov value) is exactly the set of instances of its type and subtypes created before the declaration (enum: own + included values). "
            "The constraints are read by a second read(); after solve(): every variable's value is in that set, every instance field equals the constructor / initialiser value, every "
            "constraint over objects holds for every remaining choice. Layer L1b (half of the shards): a class T0 with a real, an int, a bool and a time-point field (half of the time declared as a type nested in "
            "another class and named N.T0 everywhere), a class T1 with a field of type T0 and a real field, 2-4 instances each with constant field values, object variables over them; 1-5 "
            "constraints through v.r / v.k / v.p / v.t / w.s / w.link / w.link.r (chains) / w.link == v / w.s + v.r, each true under a planted choice; the harness evaluates every "
            "constraint for every combination of values the reported solution still allows (counter field_constraints_evaluated). Non-trivial: field access on a multi-valued variable, a diamond, an enum union, or a variable declared between "
            "instantiations. Distinct by program text.",
    "technique": "property-based testing with a class-hierarchy generator and a reference object model",
    "level_text": "Random hierarchies and instance sets compared with a reference model of domains and constructor semantics. Methods and nested types are not generated.",
    "level_note": _PROB_TRUST,
    "assumptions": [],
}
PROPS["C16"]["runs"] = (lambda base: (lambda tier: base(tier) + [
    {"cfg": "dbg", "harness": "h_prob", "sub": "eval", "cases": 2000 if tier == "quick" else 40000, "max_size": 300, "shards": 3, "budget_ms": 20000, "excl": list(GEN_EXCL)},
    {"cfg": "dbg", "harness": "h_prob", "sub": "evalp", "cases": 2000 if tier == "quick" else 40000, "max_size": 300, "shards": 1, "budget_ms": 20000, "excl": list(GEN_EXCL), "opts": {"layer": "evalp"}},
    {"cfg": "dbg", "harness": "h_prob", "sub": "methods", "cases": 1000 if tier == "quick" else 20000, "max_size": 300, "shards": 1, "budget_ms": 20000, "excl": list(GEN_EXCL), "opts": {"layer": "L1m"}}]))(PROPS["C16"]["runs"])
PROPS["C16"]["rule"] = PROPS["C16"]["rule"].replace("Three parser-level sub-checks (evaluation of constant expressions is checked on solved programs, see the eval sub-run when present).",
    "Three parser-level sub-checks and an evaluation sub-check. eval: programs 'real v = <constant expression>;' / 'v == <constant expression>;' / 'bool c = <boolean expression over "
    "constants>;' (products and quotients of constants, constant * expression, unary minus, all relations, & ^ ! == != and, outside the known finding KF2, | and ->), solved in-process; "
    "the reported value of every such variable must equal the harness's exact evaluation (non-trivial: a product, division, unary minus or boolean constant expression). "
    "evalp: the same constant expressions in the other syntactic positions the statement names - a field initialiser (real f = e;), a constructor argument (new EA(e)), an argument in "
    "a constructor's initialiser list (h(e)), a predicate argument (new EP(x: e)) and a rule body (y == x + (e)) - the field / parameter read back from the solution must equal "
    "the exact value. methods: top-level methods returning a value built from their arguments (real lin(real a) { return a * k + c; }, bool atleast(real a), real diff(real a, real b)) "
    "called as field initialisers, nested, with two arguments and as statements; a call denotes the expression the method returns, so every variable pinned through calls must read "
    "back as the harness's exact evaluation.")
PROPS["C16"]["assumptions"] = ["literals stay within 18 digits", "eval sub-run: '|' and '->' are generated only where a disjunction is asserted (known finding KF2)"]
# LeakSanitizer suppression files switched on by the exclusion names of the known leak findings (see check: env_for)
LSAN_SUPP = {"solver_teardown_keeps_flaws": "tools/lsan-kf8.supp", "builtin_type_syntax_trees_kept": "tools/lsan-kf9.supp"}
PROPS["C18"]["runs"] = (lambda base: (lambda tier: base(tier) + [
    {"cfg": "dbg", "harness": "h_prob", "cases": 600 if tier == "quick" else 20000, "max_size": 300, "shards": 2, "budget_ms": 20000, "excl": list(GEN_EXCL),
     "opts": {"layer": l}, "replay_args": ["--crash-violation"]} for l in ("L0", "L1", "L1b", "L1m", "L2", "L3", "L3b", "L3d")] + [
    # the same programs with LeakSanitizer at the end of every case (about 0.3 s per case: matching the suppressions of the known leak findings needs symbolised stacks)
    {"cfg": "dbg", "harness": "h_prob", "sub": "leaks", "cases": 50 if tier == "quick" else 2500, "max_size": 300, "shards": 2 if tier == "quick" else 4, "budget_ms": 20000, "excl": list(GEN_EXCL),
     "opts": {"layer": l, "leakcheck": "1"}, "leak": True, "replay_args": ["--crash-violation"]} for l in ("L0", "L1", "L1b", "L1m", "L2", "L3", "L3b", "L3d")] + [
    {"kind": "fuzz", "cfg": "fz", "harness": "fz_lang", "sub": "fuzz", "cases": 6000 if tier == "quick" else 400000, "max_size": 4096, "shards": 8 if tier == "quick" else 16,
     "seed_corpus": "corpus/lang", "dict": "corpus/riddle.dict"}]))(PROPS["C18"]["runs"])
PROPS["C18"]["rule"] += (" programs (valid typed programs of the C01 generator, layers L0/L1/L3, through read()+solve() in the Debug+ASan+UBSan build): any signal, assertion failure, std::terminate or "
                         "sanitizer report is a violation; a std::exception is not; for layer L3d (problems with at most 3 alternatives and 5 atoms, a third of them unsolvable by construction) a case that "
                         "exhausts its 20 s CPU budget is a violation as well (hang); in the `leaks` sub-run LeakSanitizer runs at the end of every case (the allocation sites of the known findings KF8/KF9 "
                         "are suppressed by allocation site, everything else is reported). "
                         "fuzz (libFuzzer, coverage-guided, clang ASan+UBSan build of the library): byte strings mutated from the empty corpus (odd shards) or from 40 example programs of "
                         "the repository (even shards) with a keyword dictionary; in-target oracles: parse returns or throws std::exception (crash / sanitizer report / 20 s time limit = violation), "
                         "the same text is accepted twice or rejected twice, a trailing line comment does not change acceptance, an accepted text followed by itself is accepted, and an accepted "
                         "text leaks nothing once the compilation unit and the parser are destroyed. Non-trivial: >= 8 non-blank characters; distinct by input hash.")


def _c03(tier):
    q = tier == "quick"
    n = 450 if q else 40000
    runs = [{"cfg": "dbg-l", "harness": "h_exec", "cases": n, "max_size": 300, "shards": 6, "budget_ms": 20000, "excl": list(GEN_EXCL)},
            # rings of mutually recursive predicates: opportunities for circular causal support (structural level only)
            {"cfg": "dbg-l", "harness": "h_exec", "sub": "rings", "cases": 60 if q else n // 20, "max_size": 300, "shards": 4, "budget_ms": 3000, "excl": list(GEN_EXCL), "opts": {"layer": "L2c"}}]
    for c in (["dbg", "dbg-hadd-ci"] if q else ALL_CFGS):
        runs.append({"cfg": c, "harness": "h_prob", "cases": n, "max_size": 300, "shards": 3 if q else 2, "budget_ms": 20000, "excl": list(GEN_EXCL)})
        runs.append({"cfg": c, "harness": "h_prob", "cases": n, "max_size": 300, "shards": 1, "budget_ms": 20000, "excl": list(GEN_EXCL), "opts": {"layer": "L2p"}})
    return runs


PROPS["C03"] = {
    "runs": _c03,
    "rule": "Problems with 2-4 predicates whose rules have subgoals on lower predicates with argument expressions (a, a+1, a-1, constants), disjunctive bodies, body constraints, and predicates whose "
            "rule is 'false' (only a unification with a fact can justify them); 1-5 facts and 1-4 goals whose arguments often repeat those of an existing fact / goal (unification "
            "opportunities) or leave an argument free. On every reported solution: observable level (all configurations, API only): every Unified atom has an Active atom of the same "
            "predicate object with equal, fully determined arguments. Structural level (listeners configuration dbg-l, a solver_listener records every flaw and resolver, no hook): every "
            "flaw whose phi is true has a resolver whose rho is true; an Active atom has a true activation resolver; a Unified atom has exactly one true unification resolver whose target is "
            "Active and of the same predicate; an atom whose flaw is active is Active or Unified; the graph 'gave rise to' (through resolvers true in the solution) + 'is unified with' is acyclic. "
            "Rule application (all configurations, from the generator's own record of every rule): for every Active goal the body constraint of its rule (a <= b) holds in the reported "
            "values, every subgoal the rule prescribes is in the plan (an Active or Unified atom of the sub-predicate with exactly the prescribed argument values), for a disjunctive body "
            "at least one alternative is in the plan, and no goal of a predicate whose rule is 'false' is Active (counter applied_rules_checked). Half of the problems declare a base "
            "predicate B(real c) { c >= 1.0; [goal sb = new Q0(a: c);] } from which some predicates derive, half of those with an empty body of their own: the inherited rule must be "
            "applied to every active goal of a derived predicate. One shard per configuration runs the shared-variable problems of C01's layer L2p (every top-level goal active, one "
            "alternative's subgoal in the plan). Two shards of the listeners configuration run layer L2c: a ring of 2-3 mutually recursive predicates whose rules offer a subgoal on the "
            "next predicate of the ring, a cheap shortcut that is infeasible only once chosen and a sound but long chain; one goal per ring predicate with equal arguments, so that a plan "
            "supported by nothing but its own ring is within reach of the search - the acyclicity clause of the structural level decides. "
            "Non-trivial: the solution contains >= 1 unified and >= 1 active atom. Distinct by program text.",
    "technique": "property-based testing; validity predicates over the reported plan and over the derivation graph recorded through the public listener interface",
    "level_text": "Random rule structures with many unification opportunities; the derivation graph of every solution is validated. The unification target is read from the resolver's own description "
                  "string (the only public access).",
    "level_note": _PROB_TRUST,
    "assumptions": ["recursion through rules is not generated (subgoals only on lower predicates), so every search terminates"],
}


def _c19(tier):
    q = tier == "quick"
    base = {"cfg": "dbg-l", "harness": "h_exec", "cases": 1800 if q else 30000, "max_size": 400, "shards": 8, "budget_ms": 30000, "excl": list(GEN_EXCL)}
    # half of the shards also ask for delays that are not whole ticks (option anydelay, not carried by older tapes)
    return [base, dict(base, opts={"anydelay": "1", "imp": "1"})]


PROPS["C19"] = {
    "runs": _c19,
    "rule": "Listeners + executor configuration (dbg-l, BUILD_EXECUTOR=ON). A planted timeline problem of the C04/C05 generator with variable times (windows or free starts) is solved with an "
            "executor attached (units_per_tick in {1, 1/2, 2}); then a tape drives 5-36 tick() calls; inside starting()/ending() the tape decides per atom whether to call dont_start_yet / "
            "dont_end_yet with 1-3 tick units (half of the shards: also half a tick and one and a half ticks, and the problems of those shards may carry 1-3 impulsive atoms on an Agent, which are started and ended "
            "like the others), and between ticks whether to report failure() of an active atom that has not ended. A recording executor_listener checks: tick(t) announces exactly "
            "one more units_per_tick per call; start/end at most once per atom, end only after start; start (end) delivered only when the atom's planned start (end) at that moment is <= current "
            "time; never in the tick() call in which the client delayed it; after every tick() that returns: the start of every started atom still in the plan and the end of every ended atom "
            "are unchanged, and the plan passes the C04/C05/C06 validators; at the end every active atom whose planned start (end) lies before the last processed time was started (ended) "
            "exactly once. execution_exception / unsolvable_exception are allowed outcomes; abnormal termination is a violation. Non-trivial: a delay or a failure was injected and at "
            "least one atom was dispatched. Distinct by program + event log.",
    "technique": "stateful property-based testing with fault injection (delays, failures) through the executor's own listener interface",
    "level_text": "Random plans and client behaviours on the logical clock. Because of the known findings KF6/KF7 adaptation requests are generated only where the executor can honour them "
                  "(one request per tick, only when no other atom is pending); the excluded shapes are represented by their replay files.",
    "level_note": _PROB_TRUST,
    "assumptions": ["integral delays (whole tick units); real-time behaviour (timer, ROS) is outside"],
}


def _c20(tier):
    q = tier == "quick"
    base = {"cfg": "par-tsan", "harness": "h_net", "cases": 50 if q else 1500, "max_size": 500, "shards": 8, "budget_ms": 60000}
    # half of the shards also create more derived variables with constants and set bounds directly through set_lb / set_ub
    return [base, dict(base, opts={"setb": "1"})]


PROPS["C20"] = {
    "runs": _c20,
    "rule": "Build with PARALLELIZE=ON and ThreadSanitizer (RelWithDebInfo, assertions on). LRA histories of the C09 generator biased to many relation literals over shared variables (so the "
            "entering variable of a pivot occurs in several rows); the tape also chooses the pool size in {1, 2, 4, 16} (hook H4: ORATIO_VERIF_POOL) and whether a seeded perturbation "
            "(yield / spin / 50 us sleep) runs at the scheduling points at task start, before each watch-list lock and at task end. Oracles: (1) in-situ reference through hook H4: after "
            "every parallel pivot, when join() has returned, each touched row must equal the sequential update (the entering variable substituted by its expression, exact arithmetic, "
            "no zero coefficient stored) and the watch lists restricted to those rows must list exactly the variables of each row; (2) the number of tasks started == ended == rows at that "
            "moment (join returned with no task active); (3) any ThreadSanitizer report (data race, mutex misuse) ends the case abnormally = violation; (4) C09's model check of values and "
            "bounds on the parallel build. In half of the shards the histories also create derived variables with constants and set bounds directly through the public set_lb / set_ub at "
            "root level (so that rows with a non-zero constant leave the basis). Non-trivial: at least one pivot with >= 2 parallel row tasks. Distinct by rendered history.",
    "technique": "property-based testing under ThreadSanitizer with seeded schedule perturbation and an in-situ sequential reference for every parallel pivot",
    "level_text": "Schedules are sampled (OS scheduler + seeded perturbation at the hook points), not enumerated: this is the weakest claim of the set. The sequential reference is computed by the "
                  "harness from the rows before the pivot, so 'parallel = sequential' is checked at the only place where the two builds differ; learnt-clause sequences are not compared "
                  "between builds (row propagation iterates a hash set of pointers, so they legitimately differ).",
    "level_note": "Trusted: ThreadSanitizer (Z3 and rapidcheck, which are not instrumented, are suppressed: tools/tsan.supp), hook H4, GMP. " + _NET_TRUST,
    "assumptions": ["a ThreadSanitizer report in code of /repo is a violation; reports attributed to libz3 / librapidcheck are suppressed"],
}

NOT_CLAIMED = {}
