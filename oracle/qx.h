// Exact reference arithmetic: extended rationals (GMP) and rationals with an infinitesimal part.
#pragma once
#include <gmpxx.h>
#include <map>
#include <optional>
#include <string>

namespace qx
{
  // extended rational: inf = -1 / 0 / +1
  struct Q
  {
    int inf = 0;
    mpq_class v = 0;
    Q() {}
    Q(long n) : v(n) {}
    Q(long n, long d) : v(mpq_class(mpz_class(n), mpz_class(d))) { v.canonicalize(); }
    Q(const mpq_class &q) : v(q) {}
    static Q pinf() { Q q; q.inf = 1; return q; }
    static Q ninf() { Q q; q.inf = -1; return q; }
    bool finite() const { return inf == 0; }
    int sgn() const { return inf ? inf : ::sgn(v); }
  };

  inline int cmp(const Q &a, const Q &b)
  {
    if (a.inf || b.inf)
      return a.inf < b.inf ? -1 : (a.inf > b.inf ? 1 : (a.inf ? 0 : ::cmp(a.v, b.v)));
    return ::cmp(a.v, b.v);
  }
  inline bool operator==(const Q &a, const Q &b) { return cmp(a, b) == 0; }
  inline bool operator!=(const Q &a, const Q &b) { return cmp(a, b) != 0; }
  inline bool operator<(const Q &a, const Q &b) { return cmp(a, b) < 0; }
  inline bool operator<=(const Q &a, const Q &b) { return cmp(a, b) <= 0; }

  // arithmetic where defined; nullopt = undefined combination (inf-inf, 0*inf, x/0)
  inline std::optional<Q> add(const Q &a, const Q &b)
  {
    if (a.inf && b.inf)
      return a.inf == b.inf ? std::optional<Q>(a) : std::nullopt;
    if (a.inf) return a;
    if (b.inf) return b;
    return Q(mpq_class(a.v + b.v));
  }
  inline Q neg(const Q &a)
  {
    Q r;
    r.inf = -a.inf;
    r.v = -a.v;
    return r;
  }
  inline std::optional<Q> sub(const Q &a, const Q &b) { return add(a, neg(b)); }
  inline std::optional<Q> mul(const Q &a, const Q &b)
  {
    if (a.inf || b.inf)
    {
      int s = a.sgn() * b.sgn();
      if (s == 0) return std::nullopt;
      return s > 0 ? Q::pinf() : Q::ninf();
    }
    return Q(mpq_class(a.v * b.v));
  }
  inline std::optional<Q> div(const Q &a, const Q &b)
  {
    if (b.inf)
    {
      if (a.inf) return std::nullopt;
      return Q(0);
    }
    if (::sgn(b.v) == 0) return std::nullopt;
    if (a.inf)
      return a.inf * ::sgn(b.v) > 0 ? Q::pinf() : Q::ninf();
    return Q(mpq_class(a.v / b.v));
  }
  inline std::string str(const Q &a)
  {
    if (a.inf) return a.inf > 0 ? "+inf" : "-inf";
    return a.v.get_str();
  }

  // rational + infinitesimal*eps, lexicographic order
  struct E
  {
    Q r, e;
    E() {}
    E(const Q &r) : r(r) {}
    E(const Q &r, const Q &e) : r(r), e(e) {}
  };
  inline int cmp(const E &a, const E &b)
  {
    int c = cmp(a.r, b.r);
    if (c || !a.r.finite())
      return c; // an infinite rational part denotes the same point whatever the infinitesimal part
    return cmp(a.e, b.e);
  }
  inline bool operator==(const E &a, const E &b) { return cmp(a, b) == 0; }
  inline bool operator!=(const E &a, const E &b) { return cmp(a, b) != 0; }
  inline bool operator<(const E &a, const E &b) { return cmp(a, b) < 0; }
  inline bool operator<=(const E &a, const E &b) { return cmp(a, b) <= 0; }
  inline std::string str(const E &a)
  {
    if (!a.r.finite()) return str(a.r);
    if (a.e.finite() && ::sgn(a.e.v) == 0) return str(a.r);
    return str(a.r) + " + " + str(a.e) + "eps";
  }
  inline E eadd(const E &a, const E &b) { return E(*add(a.r, b.r), *add(a.e, b.e)); }
  inline E esub(const E &a, const E &b) { return E(*sub(a.r, b.r), *sub(a.e, b.e)); }
  inline E eneg(const E &a) { return E(neg(a.r), neg(a.e)); }
  inline E escale(const E &a, const Q &k) { return E(*mul(a.r, k), *mul(a.e, k)); }

  // linear expression over variable ids
  struct L
  {
    std::map<size_t, mpq_class> c;
    mpq_class k = 0;
    void norm()
    {
      for (auto it = c.begin(); it != c.end();)
        if (::sgn(it->second) == 0)
          it = c.erase(it);
        else
          ++it;
    }
  };
  inline L ladd(const L &a, const L &b)
  {
    L r = a;
    for (auto &t : b.c) r.c[t.first] += t.second;
    r.k += b.k;
    r.norm();
    return r;
  }
  inline L lscale(const L &a, const mpq_class &s)
  {
    L r;
    for (auto &t : a.c) r.c[t.first] = t.second * s;
    r.k = a.k * s;
    r.norm();
    return r;
  }
  inline L lsub(const L &a, const L &b) { return ladd(a, lscale(b, -1)); }
  inline bool leq(L a, L b)
  {
    a.norm();
    b.norm();
    return a.c == b.c && a.k == b.k;
  }
  inline std::string str(const L &a)
  {
    std::string s;
    for (auto &t : a.c)
      s += (s.empty() ? "" : " + ") + t.second.get_str() + "*x" + std::to_string(t.first);
    if (s.empty() || ::sgn(a.k) != 0)
      s += (s.empty() ? "" : " + ") + a.k.get_str();
    return s;
  }
} // namespace qx
