"""Shared by ./check and tools/check_replays.py: decide whether a tape replay still decodes to the case it recorded."""
DROP = ("--", "!!", "(foreign)", "tick ", "failure(", "execution_exception", "unsolvable_exception", "REPLAY-", "VIOLATION", "[")


def norm(lines):
    """input part of a rendered case: results (after ' -> '), verdict / failure lines and execution traces are dropped"""
    out = []
    for l in lines:
        if not l.strip() or l.lstrip().startswith(DROP):
            continue
        out.append(l.split(" -> ")[0].rstrip())
    return out


def recorded_case(path):
    txt = open(path, errors="replace").read()
    if not txt.startswith("# verif replay file") or "\ntext|" in txt:
        return None
    rec = [l[8:] for l in txt.splitlines() if l.startswith("# case: ")]
    return norm(rec) or None


def stale(path, replay_stdout):
    """True / False, or None when the file records no case (crash replays, literal programs, raw fuzzer inputs)"""
    rec = recorded_case(path)
    if rec is None:
        return None
    i = replay_stdout.rfind("case:\n")
    got = norm(replay_stdout[i + 6:].splitlines()) if i >= 0 else []
    # a repaired defect changes results and may change what later operations of a history look like: compare the common prefix
    # up to the first recorded failure marker only when both are non-empty
    n = min(len(rec), len(got))
    return n == 0 or rec[:n] != got[:n]
