#!/bin/bash
# Runs the repository's pinned test suite with the verification guard OFF (no -DORATIO_VERIF), from the current
# working tree, in its own build directory. Prints the ctest summary; exit status is ctest's.
set -e
REPO=${ORATIO_REPO:-/repo}
B=/verif/.build/baseline-off
cmake -G Ninja -S "$REPO" -B "$B" -DCMAKE_BUILD_TYPE=RelWithDebInfo -DCMAKE_CXX_FLAGS=-Wno-error >/dev/null
cmake --build "$B" -j 16 >/dev/null
ctest --test-dir "$B" -j8 --timeout 900 --output-junit "$B/baseline.junit.xml" | tail -5
