#!/usr/bin/env python3
"""Builds /repo's *current working tree* (or $ORATIO_REPO) in a named configuration into
/verif/.build/<cfg>[-<treehash>]/ with hooks on (-DORATIO_VERIF), then harness binaries linking it.

  build.py repo <cfg>                 -> prints the build directory
  build.py harness <cfg> <name>       -> builds engine/<name>.cpp against <cfg>, prints the binary path

flock-protected and incremental (cmake + ninja decide what is stale from mtimes)."""
import fcntl, hashlib, os, subprocess, sys, shlex, time

VERIF = os.path.dirname(os.path.abspath(__file__))
REPO = os.environ.get("ORATIO_REPO", "/repo")
BUILD_ROOT = os.path.join(VERIF, ".build")
GUARD = "ORATIO_VERIF"

SAN = "-fsanitize=address,undefined -fno-sanitize=vptr -fno-sanitize-recover=all -fno-omit-frame-pointer"
TSAN = "-fsanitize=thread -fno-omit-frame-pointer"

# name -> (cmake build type, extra cxx flags, cmake -D options, compiler)
CFGS = {
    "dbg":        ("Debug", SAN + " -O1", {}, "g++"),
    "dbg-hadd":   ("Debug", SAN + " -O1", {"HEURISTIC_TYPE": "h_add"}, "g++"),
    "dbg-ci":     ("Debug", SAN + " -O1", {"CHECK_INCONSISTENCIES": "ON"}, "g++"),
    "dbg-hadd-ci": ("Debug", SAN + " -O1", {"HEURISTIC_TYPE": "h_add", "CHECK_INCONSISTENCIES": "ON"}, "g++"),
    "dbg-l":      ("Debug", SAN + " -O1", {"BUILD_EXECUTOR": "ON"}, "g++"),
    "rel":        ("Release", "", {}, "g++"),
    "rel-hadd":   ("Release", "", {"HEURISTIC_TYPE": "h_add"}, "g++"),
    "rel-ci":     ("Release", "", {"CHECK_INCONSISTENCIES": "ON"}, "g++"),
    "rel-hadd-ci": ("Release", "", {"HEURISTIC_TYPE": "h_add", "CHECK_INCONSISTENCIES": "ON"}, "g++"),
    "par-tsan":   ("RelWithDebInfo", TSAN + " -UNDEBUG", {"PARALLELIZE": "ON"}, "g++"),
    "seq-tsan":   ("RelWithDebInfo", TSAN + " -UNDEBUG", {"PARALLELIZE": "OFF"}, "g++"),
    "par-dbg":    ("Debug", SAN + " -O1", {"PARALLELIZE": "ON"}, "g++"),
    # line coverage of the library under the checks (tools/coverage.sh); not used by any registered command
    "cov":        ("Debug", "--coverage -O0", {"BUILD_EXECUTOR": "ON"}, "g++"),
    "fz":         ("Debug", "-fsanitize=fuzzer-no-link,address,undefined -fno-sanitize=vptr -fno-sanitize-recover=all -O1 -g",
                   {}, "clang++"),
}


def cfg_dir(cfg):
    tag = cfg
    if os.path.realpath(REPO) != "/repo":
        tag += "-" + hashlib.sha1(os.path.realpath(REPO).encode()).hexdigest()[:8]
    return os.path.join(BUILD_ROOT, tag)


def run(cmd, log, **kw):
    with open(log, "ab") as f:
        f.write(("\n$ " + (cmd if isinstance(cmd, str) else " ".join(map(shlex.quote, cmd))) + "\n").encode())
        f.flush()
        r = subprocess.run(cmd, stdout=f, stderr=subprocess.STDOUT, **kw)
    if r.returncode != 0:
        sys.stderr.write("BUILD FAILED (%s), see %s\n" % (cmd, log))
        try:
            sys.stderr.write(open(log, errors="replace").read()[-6000:])
        except Exception:
            pass
        sys.exit(3)


def lock(path):
    os.makedirs(os.path.dirname(path), exist_ok=True)
    f = open(path, "w")
    fcntl.flock(f, fcntl.LOCK_EX)
    return f


def build_repo(cfg):
    btype, cxx, opts, comp = CFGS[cfg]
    d = cfg_dir(cfg)
    os.makedirs(d, exist_ok=True)
    lk = lock(os.path.join(d, ".lock"))
    log = os.path.join(d, "build.log")
    open(log, "w").close()
    flags = "-D%s %s" % (GUARD, cxx)
    cm = ["cmake", "-G", "Ninja", "-S", REPO, "-B", os.path.join(d, "repo"),
          "-DCMAKE_BUILD_TYPE=" + btype, "-DCMAKE_CXX_COMPILER=" + comp,
          "-DCMAKE_CXX_FLAGS=" + flags, "-DBUILD_TESTING=OFF"]
    for k, v in opts.items():
        cm.append("-D%s=%s" % (k, v))
    run(cm, log)
    run(["ninja", "-C", os.path.join(d, "repo"), "-j", str(os.cpu_count() or 8)], log)
    lk.close()
    return d


def include_flags(d):
    inc = []
    for sub in ["smt", "smt/arith", "smt/arith/lra", "smt/arith/dl", "smt/ov", "smt/json", "smt/concurrent",
                "riddle", "core", "solver", "solver/flaws", "solver/types", "solver/heuristics", "executor"]:
        inc.append("-I" + os.path.join(REPO, sub))
    for sub in ["smt", "smt/json", "riddle", "core", "solver", "executor", "smt/concurrent"]:
        inc.append("-I" + os.path.join(d, "repo", sub))
    inc.append("-I" + os.path.join(VERIF, "engine"))
    inc.append("-I" + os.path.join(VERIF, "oracle"))
    return inc


# harness name -> (sources, libs to link from the repo build, extra libs, extra defines)
HARNESS = {
    "h_arith":   (["engine/h_arith.cpp"], ["smt", "json"], ["-lgmpxx", "-lgmp"], []),
    "h_net":     (["engine/h_net.cpp"], ["smt", "json"], ["-lz3", "-lgmpxx", "-lgmp"], []),
    "h_lang":    (["engine/h_lang.cpp"], ["riddle", "smt", "json"], ["-lgmpxx", "-lgmp"], []),
    "h_prob":    (["engine/h_prob.cpp"], ["solver", "core", "riddle", "smt", "json"], ["-lz3", "-lgmpxx", "-lgmp"], []),
    "h_exec":    (["engine/h_prob.cpp"], ["executor", "solver", "core", "riddle", "smt", "json"], ["-lz3", "-lgmpxx", "-lgmp"], ["-DBUILD_LISTENERS", "-DWITH_EXECUTOR"]),
    "h_par":     (["engine/h_par.cpp"], ["smt", "json"], ["-lgmpxx", "-lgmp", "-lpthread"], []),
    # libFuzzer targets (configuration `fz` only): no rapidcheck driver, linked with -fsanitize=fuzzer
    "fz_lang":   (["engine/fz_lang.cpp"], ["riddle", "smt", "json"], [], []),
    # the tape-driven cases of h_arith / h_lang as libFuzzer targets (engine/pbt_fuzz.h): the fuzzer's bytes are the tape
    "fz_arith":  (["engine/h_arith.cpp"], ["smt", "json"], ["-lgmpxx", "-lgmp"], ["-DPBT_FUZZ"]),
    "fz_tlang":  (["engine/h_lang.cpp"], ["riddle", "smt", "json"], ["-lgmpxx", "-lgmp"], ["-DPBT_FUZZ"]),
}


def build_harness(cfg, name):
    d = build_repo(cfg)
    btype, cxx, opts, comp = CFGS[cfg]
    srcs, libs, extra, defs = HARNESS[name]
    lk = lock(os.path.join(d, ".lock-h-" + name))
    log = os.path.join(d, "harness-%s.log" % name)
    open(log, "w").close()
    out = os.path.join(d, name)
    libdir = os.path.join(d, "repo", "lib")
    if opts.get("PARALLELIZE") == "ON":
        libs = libs + ["concurrent"]
        defs = defs + ["-DPARALLELIZE"]
    if opts.get("BUILD_EXECUTOR") == "ON" and "-DBUILD_LISTENERS" not in defs:
        defs = defs + ["-DBUILD_LISTENERS"]
    opt = "-O1 -g" if btype != "Release" else "-O2"
    common = [comp, "-std=gnu++17"] + opt.split() + cxx.split() + ["-D" + GUARD, "-DVERIF_CFG=\"%s\"" % cfg] + defs + include_flags(d)
    if name.startswith("fz_"):
        src = [os.path.join(VERIF, s) for s in srcs]
        hdrs = [os.path.join(dp, fn) for root in (os.path.join(VERIF, "engine"), os.path.join(VERIF, "oracle")) for dp, _, fns in os.walk(root) for fn in fns]
        newest = max([os.path.getmtime(x) for x in src + hdrs] + [os.path.getmtime(os.path.join(libdir, f)) for f in os.listdir(libdir)])
        if not os.path.exists(out) or os.path.getmtime(out) < newest:
            cmd = [c.replace("fuzzer-no-link", "fuzzer") for c in common] + src + ["-o", out, "-L" + libdir, "-Wl,-rpath," + libdir] + ["-l" + l for l in libs] + extra
            run(cmd, log)
        lk.close()
        return out
    # the rapidcheck driver TU is slow to compile: separate object, rebuilt only when pbt_main.cpp / pbt.h change
    objs = []
    pbt_src = os.path.join(VERIF, "engine", "pbt_main.cpp")
    pbt_obj = os.path.join(d, "pbt_main.o")
    deps = [pbt_src, os.path.join(VERIF, "engine", "pbt.h")]
    lk2 = lock(os.path.join(d, ".lock-pbt"))
    if not os.path.exists(pbt_obj) or any(os.path.getmtime(x) > os.path.getmtime(pbt_obj) for x in deps):
        san_only = [f for f in cxx.split() if f.startswith("-fsanitize") or f.startswith("-fno-sanitize")]
        san_only = [f for f in san_only if "fuzzer" not in f]
        run([comp, "-std=gnu++17", "-O1", "-g", "-c", pbt_src, "-o", pbt_obj, "-I" + os.path.join(VERIF, "engine")] + san_only, log)
    lk2.close()
    objs.append(pbt_obj)
    # harness TU(s): rebuild when any engine/oracle header or the source is newer, or the repo libs are newer (headers may have changed)
    newest = 0.0
    for root in [os.path.join(VERIF, "engine"), os.path.join(VERIF, "oracle")]:
        for dp, _, fns in os.walk(root):
            for fn in fns:
                newest = max(newest, os.path.getmtime(os.path.join(dp, fn)))
    for dp, _, fns in os.walk(REPO):
        if "/_build" in dp or "/.git" in dp:
            continue
        for fn in fns:
            if fn.endswith(".h") or fn.endswith(".in"):
                newest = max(newest, os.path.getmtime(os.path.join(dp, fn)))
    stale = not os.path.exists(out) or os.path.getmtime(out) < newest
    if stale:
        cmd = common + [os.path.join(VERIF, s) for s in srcs] + objs + ["-o", out, "-L" + libdir, "-Wl,-rpath," + libdir]
        cmd += ["-l" + l for l in libs] + extra + ["-lrapidcheck"]
        run(cmd, log)
    lk.close()
    return out


if __name__ == "__main__":
    if len(sys.argv) >= 3 and sys.argv[1] == "repo":
        print(build_repo(sys.argv[2]))
    elif len(sys.argv) >= 4 and sys.argv[1] == "harness":
        print(build_harness(sys.argv[2], sys.argv[3]))
    else:
        sys.stderr.write(__doc__)
        sys.exit(2)
