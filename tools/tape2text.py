#!/usr/bin/env python3
"""tape2text.py <replay.tape> [expect] [k=v ...]: turns a program-level replay (h_prob / h_exec) into a literal-program
replay: the program recorded in the file's `# case:` lines becomes the input itself, so the replay no longer depends on the
generator that decoded the tape. Prints the new file on stdout."""
import sys
path = sys.argv[1]
expect = sys.argv[2] if len(sys.argv) > 2 and "=" not in sys.argv[2] else ""
extra = [a for a in sys.argv[2:] if "=" in a]
hdr, prog, fails = {}, [], []
for l in open(path, errors="replace").read().splitlines():
    for k in ("prop:", "harness:", "sub:", "excl:", "opt:"):
        if l.startswith(k):
            hdr[k] = l[len(k):].strip()
    if l.startswith("# case: ") or l == "# case:":
        prog.append(l[8:])
    if l.startswith("# fails: "):
        fails.append(l)
if not prog:
    # the case died before it could be rendered: the harness printed the program to stderr first
    on = False
    for l in fails:
        t = l[9:]
        if t.startswith("-- program (in case the process dies)"):
            on = True
        elif t.startswith("-- end of program --"):
            on = False
        elif on:
            prog.append(t)
body = []
for l in prog:
    if l.startswith("-- ") or l.startswith("!! ") or l.startswith("(foreign)"):
        break
    body.append(l)
opts = [o for o in hdr.get("opt:", "").split() if not o.startswith("expect=")]
if expect:
    opts.append("expect=" + expect)
opts += extra
print("# verif replay file: literal program (./check %s --replay <this file>); made from a generated case by tools/tape2text.py" % hdr["prop:"])
print("prop: " + hdr["prop:"])
print("harness: " + hdr.get("harness:", "h_prob"))
print("sub: " + hdr.get("sub:", ""))
print("excl: " + hdr.get("excl:", ""))
print("opt: " + " ".join(opts))
for l in body:
    print("text| " + l)
for l in fails[:40]:
    print(l)
