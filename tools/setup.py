#!/usr/bin/env python3
"""setup_cmd: builds every configuration and harness the quick tier needs, from files on disk only."""
import os, subprocess, sys
VERIF = os.path.dirname(os.path.dirname(os.path.abspath(__file__)))
sys.path.insert(0, VERIF)
import props
need = set()
for p, s in props.PROPS.items():
    for r in s["runs"]("quick"):
        need.add((r["cfg"], r["harness"]))
cfgs = sorted({c for c, _ in need})
procs = [subprocess.Popen([sys.executable, os.path.join(VERIF, "build.py"), "repo", c], stdout=subprocess.DEVNULL) for c in cfgs]
rc = 0
for p in procs:
    rc |= p.wait()
for c, h in sorted(need):
    rc |= subprocess.run([sys.executable, os.path.join(VERIF, "build.py"), "harness", c, h], stdout=subprocess.DEVNULL).returncode
print("setup:", "ok" if rc == 0 else "FAILED", sorted(need))
sys.exit(rc)
