#!/usr/bin/env python3
"""Replays every ledger entry and reports (a) whether it fails now and (b) whether the tape still decodes to the case that
was recorded in the file when it was captured (a generator change makes old tapes decode to something else)."""
import json, os, subprocess, sys
VERIF = os.path.dirname(os.path.dirname(os.path.abspath(__file__)))
sys.path.insert(0, VERIF)
import replaylib
bad = 0
for line in open(os.path.join(VERIF, "known_findings.jsonl")):
    line = line.strip()
    if not line or line.startswith("#"):
        continue
    e = json.loads(line)
    rp = e.get("replay")
    if not rp:
        continue
    path = os.path.join(VERIF, rp)
    r = subprocess.run([os.path.join(VERIF, "check"), e["property"], "--replay", path], capture_output=True, text=True, errors="replace")
    st = replaylib.stale(path, r.stdout)
    fails = "VIOLATION" in r.stdout
    flag = "STALE" if st else ("n/a  " if st is None else "ok   ")
    if st or (e["status"] == "known" and not fails and "leak" not in e):
        bad += 1
    print("%s %s %-5s fails_now=%-5s %s" % (flag, e["property"], e["status"], fails, rp))
print("need attention:", bad)
