#!/bin/bash
# usage: try_seed.sh <seed name> <property id> [more property ids]
# Applies /verif/seeded/<name>/patch.diff to /repo, runs the quick checks, undoes the change. Prints DETECTED / MISSED per property.
name=$1; shift
cd /repo && git diff --quiet || { echo "/repo has local changes"; exit 2; }
git -C /repo apply /verif/seeded/$name/patch.diff || { echo "patch does not apply"; exit 2; }
for p in "$@"; do
  out=$(cd /verif && VERIF_EVIDENCE_DIR=/verif/.cache/evidence-seeded VERIF_SEED=${VERIF_SEED:-1} ./check $p --tier quick 2>&1); rc=$?
  v=$(echo "$out" | grep -c "^VIOLATION property=$p")
  if [ $rc -eq 1 ] && [ $v -ge 1 ]; then echo "$name $p DETECTED ($v) :: $(echo "$out" | grep -A1 "^VIOLATION" | sed -n 2p | cut -c1-160)"; else echo "$name $p MISSED rc=$rc :: $(echo "$out" | tail -1 | cut -c1-200)"; fi
done
git -C /repo checkout -- .
rm -rf /verif/replays/*/new
