#!/bin/bash
# usage: confirm_seed.sh <name> <seed_out dir> <property id>
# Confirms a seeded change in a scratch worktree of /repo HEAD: the demonstration passes on the unchanged tree, the patch applies,
# the tree builds, the 82 tests pass, the demonstration fails with the change. Stores the change under /verif/seeded/<name>/.
name=$1; src=$2; prop=$3
W=/tmp/cs-$name
cd /repo && git worktree remove --force $W 2>/dev/null; git worktree add -q --detach $W HEAD || exit 1
mkdir -p $W/seed_out && cp -r $src/. $W/seed_out/
cd $W
bt() { cmake -G Ninja -S . -B build -DCMAKE_BUILD_TYPE=RelWithDebInfo -DCMAKE_CXX_FLAGS=-Wno-error $EXTRA_CMAKE >/dev/null 2>&1 && cmake --build build -j 16 >/dev/null 2>&1; }
bt || { echo "BUILD-FAIL unchanged"; exit 1; }
( bash seed_out/run_demo.sh > /tmp/cs-$name.unchanged.log 2>&1 ); rc0=$?
git apply seed_out/patch.diff || { echo "PATCH DOES NOT APPLY"; cd /repo; git worktree remove --force $W; exit 1; }
bt || { echo "BUILD-FAIL changed"; cd /repo; git worktree remove --force $W; exit 1; }
tests=$(ctest --test-dir build -j8 2>&1 | grep "tests passed")
( bash seed_out/run_demo.sh > /tmp/cs-$name.changed.log 2>&1 ); rc1=$?
echo "$name: demo unchanged rc=$rc0, changed rc=$rc1; $tests"
if [ $rc0 -eq 0 ] && [ $rc1 -ne 0 ] && echo "$tests" | grep -q "100% tests passed"; then
  D=/verif/seeded/$name; mkdir -p $D; cp -r seed_out/. $D/; rm -rf $D/build $D/*.log 2>/dev/null
  tail -3 /tmp/cs-$name.unchanged.log > $D/demo_unchanged_tail.txt; tail -5 /tmp/cs-$name.changed.log > $D/demo_changed_tail.txt
  echo CONFIRMED
else echo NOT-CONFIRMED; tail -5 /tmp/cs-$name.unchanged.log; tail -5 /tmp/cs-$name.changed.log; fi
cd /repo && git worktree remove --force $W
