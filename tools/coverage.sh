#!/bin/bash
# Line coverage of /repo's library sources under a sample of the checks' runs (configuration `cov`: --coverage, executor on).
# Not a registered command: a measuring tool to see which parts of the anchored files the generators reach.
# The forked cases flush their counters because they end with exit() when the option leakcheck=1 is given.
set -u
cd /verif
for h in h_exec h_net h_lang h_arith; do python3 build.py harness cov $h >/dev/null || exit 3; done
find .build/cov -name "*.gcda" -delete
EX=$(python3 -c "import props;print(','.join(props.GEN_EXCL))")
W=.cache/cov-run; rm -rf $W; mkdir -p $W
run() { # harness prop cases extra...
  local h=$1 p=$2 n=$3; shift 3
  setarch -R .build/cov/$h --prop $p --seed 7 --cases $n --max-size 300 --out $W/o.json --replay-dir $W --budget-ms 60000 --opt leakcheck=1 "$@" >/dev/null 2>&1
}
N=${1:-150}
for l in L0 L1 L1b L1m L2 L2p L2c L3 L3b L3d evalp; do run h_exec C18 $N --excl $EX --opt layer=$l & done
run h_exec C19 $N --excl $EX & run h_exec C19 $N --excl $EX --opt anydelay=1 & run h_exec C03 $N --excl $EX & run h_exec C16 $N --excl $EX & run h_exec C17 $N --excl $EX &
wait
for p in C07 C08 C09 C10 C11 C12 C13 C14; do run h_net $p $N --opt setb=1 --opt xkind=1 & done
run h_net C07 $N --sub sat & run h_net C07 $N --sub mixed & run h_net C10 $N --sub idl & run h_net C10 $N --sub rdl & run h_net C12 $N --sub idl & run h_net C12 $N --sub rdl &
wait
for s in lexer group accept bytes; do run h_lang $([ $s = bytes ] && echo C18 || echo C16) $((N*4)) --sub $s & done
for s in rational inf_rational lin; do run h_arith C15 $((N*4)) --sub $s & done
wait
python3 - <<'PY'
import os, re, subprocess, collections
root='/verif/.build/cov/repo'
res={}
for dp,_,fns in os.walk(root):
    for fn in fns:
        if fn.endswith('.gcda'):
            out=subprocess.run(['gcov','-n','-o',dp,os.path.join(dp,fn)],capture_output=True,text=True,cwd=dp).stdout
            for m in re.finditer(r"File '([^']+)'\nLines executed:([0-9.]+)% of (\d+)",out):
                f,pc,n=m.group(1),float(m.group(2)),int(m.group(3))
                if f.startswith('/repo/') and f.endswith('.cpp'):
                    res[f]=(pc,n)
tot=sum(n for _,n in res.values()); cov=sum(pc*n/100 for pc,n in res.values())
print("library .cpp files with coverage data: %d, lines %d, executed %.1f%%" % (len(res),tot,100*cov/max(tot,1)))
for f,(pc,n) in sorted(res.items(), key=lambda kv: kv[1][0]):
    print("%6.1f%% of %5d  %s" % (pc,n,f[6:]))
PY
