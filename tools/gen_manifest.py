#!/usr/bin/env python3
"""Regenerates /verif/MANIFEST.json from props.py and validates it (and any evidence files) against the schemas."""
import json, os, subprocess, sys
VERIF = os.path.dirname(os.path.dirname(os.path.abspath(__file__)))
sys.path.insert(0, VERIF)
import props

ALL = ["C%02d" % i for i in range(1, 21)]
hooks_commits = []
try:
    out = subprocess.run(["git", "-C", "/repo", "log", "--format=%h %s"], capture_output=True, text=True).stdout
    hooks_commits = [l.split()[0] for l in out.splitlines() if l.split(" ", 1)[1].startswith("verif hook")]
except Exception:
    pass

m = {
    "version": 1,
    "setup_cmd": "python3 tools/setup.py",
    "hooks": {
        "guard": "ORATIO_VERIF",
        "enable": "build.py configures /repo with -DCMAKE_CXX_FLAGS='-DORATIO_VERIF <sanitizers>' into /verif/.build/<cfg>/repo",
        "baseline_off_cmd": "/verif/baseline_off.sh",
        "source_commits": hooks_commits,
        "add_only": True,
    },
    "engines": [
        {"name": "pbt driver", "path": "engine/pbt_main.cpp", "serves_properties": sorted(props.PROPS.keys()),
         "kind_free_text": "rapidcheck generates and shrinks tapes (vector<uint16>); every case runs in a forked child of a Debug+ASan+UBSan build; tape decoders build the case by construction"},
        {"name": "libFuzzer adapter for tape-driven cases", "path": "engine/pbt_fuzz.h",
         "serves_properties": sorted(p for p, sp in props.PROPS.items() if any(r.get("kind") == "fuzz" and r["harness"] != "fz_lang" for r in sp["runs"]("quick"))),
         "kind_free_text": "coverage-guided fuzzing (clang libFuzzer, ASan+UBSan): the fuzzer's bytes are the tape of the same case decoders and oracles, in-process"},
        {"name": "libFuzzer reader target", "path": "engine/fz_lang.cpp",
         "serves_properties": sorted(p for p, sp in props.PROPS.items() if any(r.get("harness") == "fz_lang" for r in sp["runs"]("quick"))),
         "kind_free_text": "coverage-guided fuzzing of riddle::parser on byte strings (empty corpus and example programs, keyword dictionary) with metamorphic and leak oracles inside the target"},
    ],
    "checks": [],
    "not_applicable": [],
    "notes": "Every check is generated-input search against an explicit oracle (DESIGN.md). ./check <id> rebuilds /repo's working tree incrementally. "
             "known_findings.jsonl is the committed ledger (fixed / known entries); replays/ holds the shrunk failures.",
}
for p in ALL:
    if p in props.PROPS:
        s = props.PROPS[p]
        m["checks"].append({
            "property_id": p,
            "quick_cmd": "./check %s --tier quick" % p,
            "thorough_cmd": "./check %s --tier thorough" % p,
            "evidence_file": "evidence/%s.json" % p,
            "replay_cmd_template": "./check %s --replay {path}" % p,
            "engine": "pbt driver",
            "level_claimed": {"category": "exploration", "text": s["level_text"], "design_ref": s.get("design_ref", "DESIGN.md §4 " + p)},
            "level_note": s["level_note"],
            "technique": s["technique"],
        })
    else:
        m["not_applicable"].append({"property_id": p, "reason": props.NOT_CLAIMED.get(p, "check not built yet in this round (design in DESIGN.md §4); nothing is claimed for it")})
json.dump(m, open(os.path.join(VERIF, "MANIFEST.json"), "w"), indent=1)

# validation (tooling venv has jsonschema)
code = r'''
import json, sys, glob, jsonschema
ms = json.load(open("/root/.vp/MANIFEST.schema.json")); es = json.load(open("/root/.vp/EVIDENCE.schema.json"))
jsonschema.validate(json.load(open("%s/MANIFEST.json")), ms)
n = 0
for f in glob.glob("%s/evidence/*.json"):
    jsonschema.validate(json.load(open(f)), es); n += 1
print("MANIFEST valid;", n, "evidence files valid")
''' % (VERIF, VERIF)
subprocess.run(["python3-vt", "-c", code], check=True)
