// Coverage-guided (libFuzzer) target for the reader: C18 (a) "for every input text reading either succeeds or fails with a
// reported error within bounded time", with three metamorphic relations over acceptance inside the target so that the
// campaign decides more than memory safety:
//   D  the reader is deterministic: the same text is accepted twice or rejected twice
//   M1 a trailing line comment does not change acceptance
//   M2 a compilation unit is a sequence of items: if a text is accepted, the text followed by itself is accepted
//   L  reading an accepted text leaks nothing once the compilation unit and the parser are destroyed (LeakSanitizer is
//      queried in-process after accepted inputs only: the property does not promise leak-freedom on rejected input, so
//      libFuzzer's own per-input leak detection is switched off by the driver with -detect_leaks=0)
// Built with clang -fsanitize=fuzzer,address,undefined against the `fz` configuration of the library.
// Statistics are written (at exit and before every trap) to $FZ_STATS in the shard format of pbt_main.cpp.
#include "riddle_lexer.h"
#include "riddle_parser.h"
#include <algorithm>
#include <cstdint>
#include <cstdio>
#include <cstdlib>
#include <cstring>
#include <map>
#include <memory>
#include <set>
#include <sstream>
#include <string>
#include <unordered_set>
#include <vector>

extern "C" int __lsan_do_recoverable_leak_check();
extern "C" void __lsan_disable();
extern "C" void __lsan_enable();

namespace
{
  long n_leakchecks = 0, n_excluded_deep = 0;
  long n_exec = 0, n_accept = 0, n_reject = 0, n_nontrivial = 0, n_m1 = 0, n_m2 = 0;
  std::unordered_set<uint64_t> nt_hashes;
  std::vector<std::string> samples;
  std::map<std::string, long> classes;
  std::string violation_message;

  uint64_t fnv(const std::string &s)
  {
    uint64_t h = 1469598103934665603ull;
    for (unsigned char c : s) { h ^= c; h *= 1099511628211ull; }
    return h;
  }
  std::string jesc(const std::string &s)
  {
    std::string o;
    char b[8];
    for (unsigned char c : s)
      if (c == '"') o += "\\\"";
      else if (c == '\\') o += "\\\\";
      else if (c == '\n') o += "\\n";
      else if (c < 0x20 || c >= 0x7f) { snprintf(b, sizeof b, "\\u%04x", c); o += b; }
      else o += (char)c;
    return o;
  }
  void flush_stats()
  {
    const char *p = getenv("FZ_STATS");
    if (!p) return;
    FILE *f = fopen(p, "w");
    if (!f) return;
    fprintf(f, "{\"evaluations\": %ld, \"ok\": %ld, \"nontrivial\": %ld, \"timeouts\": 0, \"crashes_foreign\": 0, \"foreign_total\": 0,\n", n_exec, n_exec, n_nontrivial);
    fprintf(f, " \"discards\": {}, \"classes\": {");
    bool first = true;
    for (auto &kv : classes) { fprintf(f, "%s\"%s\": %ld", first ? "" : ", ", jesc(kv.first).c_str(), kv.second); first = false; }
    fprintf(f, "},\n \"counters\": {\"accepted\": %ld, \"rejected\": %ld, \"comment_relation_checked\": %ld, \"concatenation_relation_checked\": %ld, \"leak_checks\": %ld},\n \"nt_hashes\": [", n_accept, n_reject, n_m1, n_m2, n_leakchecks);
    size_t k = 0;
    for (auto h : nt_hashes)
    {
      if (k >= 60000) break;
      fprintf(f, "%s\"%016llx\"", k ? "," : "", (unsigned long long)h);
      ++k;
    }
    fprintf(f, "],\n \"samples\": [");
    for (size_t i = 0; i < samples.size(); ++i) fprintf(f, "%s{\"label\": \"accepted by the reader\", \"case\": \"%s\"}", i ? "," : "", jesc(samples[i]).c_str());
    fprintf(f, "],\n \"foreign\": [], \"violation_message\": \"%s\"}\n", jesc(violation_message).c_str());
    fclose(f);
  }

  // 1 accepted, 0 rejected with a reported error; anything else does not return
  int accepts(const std::string &in)
  {
    std::stringstream ss(in);
    try
    {
      riddle::parser p(ss);
      std::unique_ptr<riddle::ast::compilation_unit> cu(p.parse());
      return 1;
    }
    catch (const std::exception &)
    {
      return 0;
    }
  }
  [[noreturn]] void fail(const std::string &what, const std::string &in)
  {
    violation_message = what;
    fprintf(stderr, "\n!! %s\n-- input --\n%s\n-- end --\n", what.c_str(), in.c_str());
    flush_stats();
    __builtin_trap();
  }
} // namespace

extern "C" int LLVMFuzzerInitialize(int *, char ***)
{
  atexit(flush_stats);
  return 0;
}

extern "C" int LLVMFuzzerTestOneInput(const uint8_t *data, size_t size)
{
  std::string in((const char *)data, size);
  ++n_exec;
  { // exclusion predicate of known finding KF11 (unbounded recursion of the recursive-descent parser: a few thousand nested
    // brackets overflow the stack, sooner in this instrumented build): texts nested deeper than 150 are not parsed, and counted
    int depth = 0, max_depth = 0, run = 0; // open brackets, and chains of prefix operators (each is one level of recursion too)
    for (unsigned char c : in)
    {
      if (c == '{' || c == '(' || c == '[') max_depth = std::max(max_depth, ++depth);
      else if (c == '}' || c == ')' || c == ']') depth = std::max(0, depth - 1);
      if (c == '-' || c == '+' || c == '!') max_depth = std::max(max_depth, depth + ++run);
      else if (c > ' ') run = 0;
    }
    if (max_depth > 150 && !getenv("FZ_NO_DEPTH_LIMIT")) { ++n_excluded_deep; classes["excluded: nested deeper than 150 (known finding KF11)"]++; return 0; }
  }
  // allocations of parses that may end in a rejection are not tracked by LeakSanitizer (a rejected text may leave a partial
  // syntax tree behind; the property promises leak-freedom for valid programs only); an accepted text is parsed once more
  // below with tracking on
  struct NoTrack { NoTrack() { __lsan_disable(); } ~NoTrack() { if (on) __lsan_enable(); } void off() { if (on) __lsan_enable(); on = false; } bool on = true; } nt_guard;
  int a = accepts(in);
  (a ? n_accept : n_reject)++;
  classes[a ? "accepted" : "rejected with an error"]++;
  if (accepts(in) != a) fail("the reader is not deterministic: the same text was accepted once and rejected once", in);
  // M1: trailing line comment
  {
    ++n_m1;
    int b = accepts(in + " // c\n");
    if (b != a) fail(std::string("a trailing line comment changes acceptance: the text is ") + (a ? "accepted" : "rejected") + ", the text followed by ` // c` is " + (b ? "accepted" : "rejected"), in);
  }
  if (a)
  {
    // M2: concatenation of accepted texts
    ++n_m2;
    if (!accepts(in + "\n" + in)) fail("a text is accepted but the same text twice (separated by a newline) is rejected", in);
    // L: leak check (a stop-the-world scan: done for the first 300 accepted inputs and then for every 32nd one)
    if (n_accept <= 300 || n_accept % 32 == 0)
    {
      ++n_leakchecks;
      nt_guard.off();
      if (!accepts(in)) fail("the reader is not deterministic: the same text was accepted once and rejected once", in);
      if (__lsan_do_recoverable_leak_check()) fail("reading an accepted text leaks memory after the compilation unit and the parser are destroyed (see the LeakSanitizer report above)", in);
    }
    bool nt = false;
    size_t graph = 0;
    for (unsigned char c : in) graph += c > ' ';
    nt = graph >= 8;
    if (nt)
    {
      ++n_nontrivial;
      nt_hashes.insert(fnv(in));
      if (samples.size() < 4 && in.size() < 300) samples.push_back(in);
    }
  }
  else
  {
    size_t graph = 0;
    for (unsigned char c : in) graph += c > ' ';
    if (graph >= 8)
    {
      ++n_nontrivial;
      nt_hashes.insert(fnv(in));
    }
  }
  return 0;
}
