// Reference for difference logic: Floyd-Warshall over (rational + k*eps) weights, +infinity = no path.
#pragma once
#include "qx.h"
#include <vector>

namespace dlref
{
  using qx::E;
  using qx::Q;

  struct Closure
  {
    size_t n = 0;
    std::vector<std::vector<E>> d; // d[i][j]: tightest upper bound of x_j - x_i
    bool negative_cycle = false;
  };

  struct Edge
  {
    size_t from, to;
    E w; // to - from <= w
  };

  inline E pinf() { return E(Q::pinf()); }

  inline Closure closure(size_t n, const std::vector<Edge> &edges)
  {
    Closure c;
    c.n = n;
    c.d.assign(n, std::vector<E>(n, pinf()));
    for (size_t i = 0; i < n; ++i) c.d[i][i] = E(Q(0));
    for (auto &e : edges)
      if (qx::cmp(e.w, c.d[e.from][e.to]) < 0)
        c.d[e.from][e.to] = e.w;
    for (size_t k = 0; k < n; ++k)
      for (size_t i = 0; i < n; ++i)
      {
        if (!c.d[i][k].r.finite()) continue;
        for (size_t j = 0; j < n; ++j)
        {
          if (!c.d[k][j].r.finite()) continue;
          E s = qx::eadd(c.d[i][k], c.d[k][j]);
          if (qx::cmp(s, c.d[i][j]) < 0) c.d[i][j] = s;
        }
      }
    for (size_t i = 0; i < n; ++i)
      if (qx::cmp(c.d[i][i], E(Q(0))) < 0) c.negative_cycle = true;
    return c;
  }
} // namespace dlref
