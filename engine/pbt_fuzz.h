// libFuzzer adapter for the tape-driven cases: with -DPBT_FUZZ a harness becomes a coverage-guided fuzz target instead of a
// rapidcheck driver. The fuzzer's bytes ARE the tape (two bytes per cell), so the case generators, the oracles, the
// non-triviality rules and the exclusion predicates are exactly those of the rapidcheck runs; libFuzzer only replaces the
// source of tapes (random + shrinking) by coverage-guided mutation of tapes. Cases run in-process (no fork), so this is used
// only for harnesses whose cases keep no state between runs (h_arith, h_lang).
//   property / sub-check / options:  FZ_PROP, FZ_SUB, FZ_EXCL (comma separated), FZ_OPTS ("k=v k=v")
//   statistics:                      FZ_STATS (shard format of pbt_main.cpp), written at exit and before a trap
// An oracle failure prints the rendered case and traps: the artifact libFuzzer saves is the failing tape in binary form and is
// replayed by passing it to the binary.
#pragma once
#ifdef PBT_FUZZ
#include "pbt.h"
#include <cstdio>
#include <cstdlib>
#include <sstream>
#include <unordered_set>

namespace pbt_fuzz
{
  inline pbt::Options &options()
  {
    static pbt::Options o = [] {
      pbt::Options x;
      if (const char *p = getenv("FZ_PROP")) x.prop = p;
      if (const char *p = getenv("FZ_SUB")) x.sub = p;
      if (const char *p = getenv("FZ_EXCL"))
      {
        std::istringstream is(p);
        std::string e;
        while (std::getline(is, e, ','))
          if (!e.empty()) x.excl.insert(e);
      }
      if (const char *p = getenv("FZ_OPTS"))
      {
        std::istringstream is(p);
        std::string e;
        while (is >> e)
        {
          auto q = e.find('=');
          if (q != std::string::npos) x.kv[e.substr(0, q)] = e.substr(q + 1);
        }
      }
      return x;
    }();
    return o;
  }
  struct State
  {
    long n_exec = 0, n_nontrivial = 0, n_discard = 0;
    std::unordered_set<uint64_t> nt;
    std::map<std::string, long> classes, counters, discards;
    std::vector<std::string> samples;
    std::string violation_message;
  };
  inline State &st()
  {
    static State s;
    return s;
  }
  inline uint64_t fnv(const std::string &s)
  {
    uint64_t h = 1469598103934665603ull;
    for (unsigned char c : s) { h ^= c; h *= 1099511628211ull; }
    return h;
  }
  inline std::string jesc(const std::string &s)
  {
    std::string o;
    char b[8];
    for (unsigned char c : s)
      if (c == '"') o += "\\\"";
      else if (c == '\\') o += "\\\\";
      else if (c == '\n') o += "\\n";
      else if (c < 0x20 || c >= 0x7f) { snprintf(b, sizeof b, "\\u%04x", c); o += b; }
      else o += (char)c;
    return o;
  }
  inline void flush()
  {
    const char *p = getenv("FZ_STATS");
    if (!p) return;
    FILE *f = fopen(p, "w");
    if (!f) return;
    State &s = st();
    fprintf(f, "{\"evaluations\": %ld, \"ok\": %ld, \"nontrivial\": %ld, \"timeouts\": 0, \"crashes_foreign\": 0, \"foreign_total\": 0,\n \"discards\": {", s.n_exec, s.n_exec - s.n_discard, s.n_nontrivial);
    bool first = true;
    for (auto &kv : s.discards) { fprintf(f, "%s\"%s\": %ld", first ? "" : ", ", jesc(kv.first).c_str(), kv.second); first = false; }
    fprintf(f, "}, \"classes\": {");
    first = true;
    for (auto &kv : s.classes) { fprintf(f, "%s\"%s\": %ld", first ? "" : ", ", jesc(kv.first).c_str(), kv.second); first = false; }
    fprintf(f, "},\n \"counters\": {");
    first = true;
    for (auto &kv : s.counters) { fprintf(f, "%s\"%s\": %ld", first ? "" : ", ", jesc(kv.first).c_str(), kv.second); first = false; }
    fprintf(f, "},\n \"nt_hashes\": [");
    size_t k = 0;
    for (auto h : s.nt)
    {
      if (k >= 60000) break;
      fprintf(f, "%s\"%016llx\"", k ? "," : "", (unsigned long long)h);
      ++k;
    }
    fprintf(f, "],\n \"samples\": [");
    for (size_t i = 0; i < s.samples.size(); ++i) fprintf(f, "%s{\"label\": \"non-trivial case found by coverage-guided mutation of tapes\", \"case\": \"%s\"}", i ? "," : "", jesc(s.samples[i]).c_str());
    fprintf(f, "],\n \"foreign\": [], \"violation_message\": \"%s\"}\n", jesc(s.violation_message).c_str());
    fclose(f);
  }
  inline int one(pbt::CaseFn fn, const uint8_t *data, size_t size)
  {
    std::vector<uint16_t> cells(size / 2);
    for (size_t i = 0; i + 1 < size; i += 2) cells[i / 2] = (uint16_t)(data[i] | (data[i + 1] << 8));
    pbt::Tape t(cells);
    pbt::Result r;
    State &s = st();
    ++s.n_exec;
    fn(t, r, options());
    if (r.discard) { ++s.n_discard; s.discards[r.discard_reason]++; return 0; }
    for (auto &c : r.classes) s.classes[c]++;
    for (auto &c : r.counters) s.counters[c.first] += c.second;
    if (r.violation)
    {
      s.violation_message = r.message;
      fprintf(stderr, "\n!! %s\n-- case --\n%s\n-- end --\n", r.message.c_str(), r.render.c_str());
      flush();
      __builtin_trap();
    }
    if (r.nontrivial)
    {
      ++s.n_nontrivial;
      s.nt.insert(fnv(r.key.empty() ? r.render : r.key));
      if (s.samples.size() < 3 && r.render.size() < 1500) s.samples.push_back(r.render);
    }
    return 0;
  }
} // namespace pbt_fuzz

#define PBT_MAIN(fn, cfg)                                                                                   \
  extern "C" int LLVMFuzzerInitialize(int *, char ***) { pbt_fuzz::st(); pbt_fuzz::options(); atexit(pbt_fuzz::flush); return 0; } /* statics first: they must outlive flush() */              \
  extern "C" int LLVMFuzzerTestOneInput(const uint8_t *data, size_t size) { return pbt_fuzz::one(fn, data, size); }
#else
#define PBT_MAIN(fn, cfg) \
  int main(int argc, char **argv) { return pbt::run(argc, argv, fn, cfg); }
#endif
