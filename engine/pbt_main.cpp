// Driver: rapidcheck generates/shrinks tapes; each case runs in a forked child; statistics and replay files.
#include "pbt.h"
#include <rapidcheck.h>
#include <algorithm>
#include <chrono>
#include <cstdio>
#include <cstdlib>
#include <cstring>
#include <fstream>
#include <functional>
#include <iostream>
#include <sstream>
#include <fcntl.h>
#include <signal.h>
#include <sys/mman.h>
#include <sys/resource.h>
#include <sys/stat.h>
#include <sys/wait.h>
#include <unistd.h>

namespace pbt
{
  namespace
  {
    using clk = std::chrono::steady_clock;

    std::string jesc(const std::string &s)
    {
      std::string o;
      o.reserve(s.size() + 8);
      for (unsigned char c : s)
      {
        switch (c)
        {
        case '"': o += "\\\""; break;
        case '\\': o += "\\\\"; break;
        case '\n': o += "\\n"; break;
        case '\r': o += "\\r"; break;
        case '\t': o += "\\t"; break;
        default:
          if (c < 0x20 || c >= 0x7f)
          { // control and non-ASCII bytes: the byte value as a code point (keeps the JSON valid whatever the input was)
            char b[8];
            snprintf(b, sizeof b, "\\u%04x", c);
            o += b;
          }
          else
            o += (char)c;
        }
      }
      return o;
    }

    uint64_t fnv(const std::string &s)
    {
      uint64_t h = 1469598103934665603ull;
      for (unsigned char c : s)
      {
        h ^= c;
        h *= 1099511628211ull;
      }
      return h;
    }

    // ---- serialisation of Result over the pipe -------------------------------------------------------
    void put(std::string &b, const std::string &s)
    {
      uint32_t n = (uint32_t)s.size();
      b.append((const char *)&n, 4);
      b.append(s);
    }
    bool get(const std::string &b, size_t &p, std::string &s)
    {
      if (p + 4 > b.size())
        return false;
      uint32_t n;
      memcpy(&n, b.data() + p, 4);
      p += 4;
      if (p + n > b.size())
        return false;
      s.assign(b, p, n);
      p += n;
      return true;
    }
    std::string ser(const Result &r)
    {
      std::string b;
      put(b, r.violation ? "1" : "0");
      put(b, r.message);
      put(b, r.discard ? "1" : "0");
      put(b, r.discard_reason);
      put(b, r.nontrivial ? "1" : "0");
      put(b, std::to_string(r.classes.size()));
      for (auto &c : r.classes)
        put(b, c);
      put(b, r.render);
      put(b, r.key);
      put(b, std::to_string(r.foreign.size()));
      for (auto &c : r.foreign)
        put(b, c);
      put(b, std::to_string(r.counters.size()));
      for (auto &c : r.counters)
      {
        put(b, c.first);
        put(b, std::to_string(c.second));
      }
      put(b, "END");
      return b;
    }
    bool deser(const std::string &b, Result &r)
    {
      size_t p = 0;
      std::string s;
      if (!get(b, p, s)) return false;
      r.violation = s == "1";
      if (!get(b, p, r.message)) return false;
      if (!get(b, p, s)) return false;
      r.discard = s == "1";
      if (!get(b, p, r.discard_reason)) return false;
      if (!get(b, p, s)) return false;
      r.nontrivial = s == "1";
      if (!get(b, p, s)) return false;
      for (int i = 0, n = atoi(s.c_str()); i < n; ++i)
      {
        std::string c;
        if (!get(b, p, c)) return false;
        r.classes.insert(c);
      }
      if (!get(b, p, r.render)) return false;
      if (!get(b, p, r.key)) return false;
      if (!get(b, p, s)) return false;
      for (int i = 0, n = atoi(s.c_str()); i < n; ++i)
      {
        std::string c;
        if (!get(b, p, c)) return false;
        r.foreign.push_back(c);
      }
      if (!get(b, p, s)) return false;
      for (int i = 0, n = atoi(s.c_str()); i < n; ++i)
      {
        std::string k, v;
        if (!get(b, p, k) || !get(b, p, v)) return false;
        r.counters[k] = atol(v.c_str());
      }
      if (!get(b, p, s) || s != "END") return false;
      return true;
    }

    enum class Kind { OK, VIOLATION, DISCARD, CRASH, TIMEOUT };
    struct Outcome
    {
      Kind kind = Kind::OK;
      Result res;
      std::string crash_info;
    };

    std::string tail(const std::string &s, size_t n)
    {
      return s.size() <= n ? s : s.substr(s.size() - n);
    }

    Outcome run_forked(const std::vector<uint16_t> &tape, CaseFn fn, const Options &opt, int budget_ms)
    {
      Outcome out;
      int pfd[2];
      if (pipe(pfd) != 0)
      {
        perror("pipe");
        exit(4);
      }
      int efd = memfd_create("verif-stderr", 0);
      fflush(stdout);
      fflush(stderr);
      pid_t pid = fork();
      if (pid < 0)
      {
        perror("fork");
        exit(4);
      }
      if (pid == 0)
      {
        close(pfd[0]);
        if (efd >= 0)
        {
          dup2(efd, 2);
        }
        int dn = open("/dev/null", O_WRONLY);
        if (dn >= 0)
          dup2(dn, 1); // the library prints to stdout in places
        struct rlimit rl;
        rl.rlim_cur = rl.rlim_max = (rlim_t)((budget_ms + 999) / 1000 + 1);
        setrlimit(RLIMIT_CPU, &rl);
        alarm((unsigned)((budget_ms * 4 + 999) / 1000 + 2));
        Result r;
        Tape t(tape);
        try
        {
          fn(t, r, opt);
        }
        catch (const std::exception &e)
        {
          // an exception escaping the case function is a harness-level event: report it as a crash
          fprintf(stderr, "uncaught exception in case: %s\n", e.what());
          _exit(97);
        }
        if (r.key.empty())
          r.key = r.render;
        std::string b = ser(r);
        size_t off = 0;
        while (off < b.size())
        {
          ssize_t w = write(pfd[1], b.data() + off, b.size() - off);
          if (w <= 0)
            break;
          off += (size_t)w;
        }
        close(pfd[1]);
        if (opt.get("leakcheck") == "1")
          exit(0); // runs LeakSanitizer's end-of-process check
        _exit(0);
      }
      close(pfd[1]);
      std::string buf;
      char tmp[65536];
      for (;;)
      {
        ssize_t n = read(pfd[0], tmp, sizeof tmp);
        if (n > 0)
          buf.append(tmp, (size_t)n);
        else if (n == 0)
          break;
        else if (errno != EINTR)
          break;
      }
      close(pfd[0]);
      int st = 0;
      while (waitpid(pid, &st, 0) < 0 && errno == EINTR)
      {
      }
      std::string err;
      if (efd >= 0)
      {
        off_t sz = lseek(efd, 0, SEEK_END);
        if (sz > 0)
        {
          size_t want = (size_t)std::min<off_t>(sz, 200000);
          err.resize(want);
          ssize_t rd = pread(efd, &err[0], want, sz - (off_t)want);
          if (rd < 0) rd = 0;
          err.resize((size_t)rd);
        }
        close(efd);
      }
      bool parsed = deser(buf, out.res);
      bool normal = WIFEXITED(st) && WEXITSTATUS(st) == 0;
      if (normal && parsed)
      {
        if (out.res.violation)
          out.kind = Kind::VIOLATION;
        else if (out.res.discard)
          out.kind = Kind::DISCARD;
        else
          out.kind = Kind::OK;
        return out;
      }
      if (WIFSIGNALED(st) && (WTERMSIG(st) == SIGALRM || WTERMSIG(st) == SIGXCPU || WTERMSIG(st) == SIGKILL))
      {
        out.kind = Kind::TIMEOUT;
        out.crash_info = "budget exceeded (signal " + std::to_string(WTERMSIG(st)) + ")";
        return out;
      }
      if (err.find("signed integer overflow") != std::string::npos || err.find("cannot be represented in type 'long") != std::string::npos ||
          err.find("negation of -9223372036854775808") != std::string::npos)
      {
        out.kind = Kind::DISCARD;
        out.res.discard = true;
        out.res.discard_reason = "machine-integer overflow range";
        return out;
      }
      if (err.find("AddressSanitizer: out of memory") != std::string::npos || err.find("allocator is out of memory") != std::string::npos ||
          err.find("std::bad_alloc") != std::string::npos)
      {
        out.kind = Kind::TIMEOUT;
        out.crash_info = "memory budget";
        return out;
      }
      out.kind = Kind::CRASH;
      std::ostringstream ci;
      if (WIFSIGNALED(st))
        ci << "child killed by signal " << WTERMSIG(st);
      else if (WIFEXITED(st))
        ci << "child exit status " << WEXITSTATUS(st) << (parsed ? " (after the case completed: leak/exit-time report)" : "");
      ci << "\n"
         << tail(err, 3000);
      out.crash_info = ci.str();
      return out;
    }

    struct Stats
    {
      long evaluations = 0, nontrivial = 0, ok = 0, timeouts = 0, crashes_foreign = 0;
      std::map<std::string, long> discards, classes, counters;
      std::set<uint64_t> nt_hashes;
      std::vector<std::string> foreign;
      long foreign_total = 0;
      std::vector<std::pair<std::string, std::string>> samples; // (label, render)
      std::set<std::string> sample_classes;
      size_t smallest = (size_t)-1, largest = 0;
      std::string smallest_r, largest_r;
    };

    void account(Stats &s, const Outcome &o)
    {
      s.evaluations++;
      for (auto &f : o.res.foreign)
      {
        s.foreign_total++;
        if (s.foreign.size() < 8)
          s.foreign.push_back(f);
      }
      for (auto &c : o.res.counters)
        s.counters[c.first] += c.second;
      switch (o.kind)
      {
      case Kind::DISCARD:
        s.discards[o.res.discard_reason]++;
        return;
      case Kind::TIMEOUT:
        s.timeouts++;
        return;
      case Kind::CRASH:
        s.crashes_foreign++;
        if (s.foreign.size() < 8)
          s.foreign.push_back("abnormal termination (C18's business): " + tail(o.crash_info, 600));
        return;
      default:
        break;
      }
      s.ok++;
      for (auto &c : o.res.classes)
        s.classes[c]++;
      if (o.res.nontrivial)
      {
        s.nontrivial++;
        s.nt_hashes.insert(fnv(o.res.key));
        const std::string &r = o.res.render;
        if (r.size() < s.smallest)
        {
          s.smallest = r.size();
          s.smallest_r = r;
        }
        if (r.size() > s.largest && r.size() < 6000)
        {
          s.largest = r.size();
          s.largest_r = r;
        }
        for (auto &c : o.res.classes)
          if (!s.sample_classes.count(c) && s.samples.size() < 10 && r.size() < 3000)
          {
            s.sample_classes.insert(c);
            s.samples.push_back({"class " + c, r});
            break;
          }
      }
    }

    void write_stats(const std::string &path, const Stats &s, const Options &opt, long seed, double wall, const std::string &viol_replay,
                     const std::string &viol_msg, long shrink_steps)
    {
      if (path.empty())
        return;
      std::ofstream f(path);
      f << "{\n";
      f << " \"prop\": \"" << jesc(opt.prop) << "\", \"sub\": \"" << jesc(opt.sub) << "\", \"seed\": " << seed << ", \"wall_s\": " << wall << ",\n";
      f << " \"evaluations\": " << s.evaluations << ", \"ok\": " << s.ok << ", \"nontrivial\": " << s.nontrivial << ", \"timeouts\": " << s.timeouts
        << ", \"crashes_foreign\": " << s.crashes_foreign << ", \"foreign_total\": " << s.foreign_total << ", \"shrink_steps\": " << shrink_steps << ",\n";
      auto dump_map = [&](const char *name, const std::map<std::string, long> &m) {
        f << " \"" << name << "\": {";
        bool first = true;
        for (auto &kv : m)
        {
          f << (first ? "" : ", ") << "\"" << jesc(kv.first) << "\": " << kv.second;
          first = false;
        }
        f << "},\n";
      };
      dump_map("discards", s.discards);
      dump_map("classes", s.classes);
      dump_map("counters", s.counters);
      f << " \"nt_hashes\": [";
      {
        bool first = true;
        for (auto h : s.nt_hashes)
        {
          f << (first ? "" : ",") << "\"" << std::hex << h << std::dec << "\"";
          first = false;
        }
      }
      f << "],\n \"foreign\": [";
      for (size_t i = 0; i < s.foreign.size(); ++i)
        f << (i ? ", " : "") << "\"" << jesc(s.foreign[i]) << "\"";
      f << "],\n \"samples\": [";
      {
        bool first = true;
        auto emit = [&](const std::string &label, const std::string &r) {
          if (r.empty())
            return;
          f << (first ? "" : ", ") << "{\"label\": \"" << jesc(label) << "\", \"case\": \"" << jesc(r) << "\"}";
          first = false;
        };
        emit("smallest non-trivial", s.smallest_r);
        emit("largest non-trivial", s.largest_r);
        for (auto &p : s.samples)
          emit(p.first, p.second);
      }
      f << "],\n \"violation_replay\": \"" << jesc(viol_replay) << "\", \"violation_message\": \"" << jesc(viol_msg) << "\"\n}\n";
    }

    std::string g_harness;

    std::string tape_str(const std::vector<uint16_t> &t)
    {
      std::ostringstream o;
      for (size_t i = 0; i < t.size(); ++i)
        o << (i ? " " : "") << t[i];
      return o.str();
    }

    bool read_replay(const std::string &path, std::vector<uint16_t> &tape, Options &opt)
    {
      std::ifstream f(path);
      if (!f)
        return false;
      std::string line;
      bool got = false;
      while (std::getline(f, line))
      {
        if (line.rfind("tape:", 0) == 0)
        {
          std::istringstream is(line.substr(5));
          unsigned v;
          while (is >> v)
            tape.push_back((uint16_t)v);
          got = true;
        }
        else if (line.rfind("prop:", 0) == 0)
        {
          std::istringstream is(line.substr(5));
          is >> opt.prop;
        }
        else if (line.rfind("sub:", 0) == 0)
        {
          std::istringstream is(line.substr(4));
          opt.sub.clear();
          is >> opt.sub;
        }
        else if (line.rfind("excl:", 0) == 0)
        {
          std::istringstream is(line.substr(5));
          std::string e;
          while (is >> e)
            opt.excl.insert(e);
        }
        else if (line.rfind("text|", 0) == 0)
        { // a literal input text for harnesses that accept one (program-level replays that must survive generator changes)
          opt.kv["text"] += line.substr(line.size() > 5 && line[5] == ' ' ? 6 : 5) + "\n";
          got = true;
        }
        else if (line.rfind("opt:", 0) == 0)
        {
          std::istringstream is(line.substr(4));
          std::string e;
          while (is >> e)
          {
            auto p = e.find('=');
            if (p != std::string::npos)
              opt.kv[e.substr(0, p)] = e.substr(p + 1);
          }
        }
      }
      return got;
    }

    void write_replay(const std::string &path, const std::vector<uint16_t> &tape, const Options &opt, const Outcome &o)
    {
      std::ofstream f(path);
      f << "# verif replay file: decode the tape with the harness for this property (./check " << opt.prop << " --replay <this file>)\n";
      f << "prop: " << opt.prop << "\n";
      f << "harness: " << g_harness << "\n";
      f << "sub: " << opt.sub << "\n";
      f << "excl:";
      for (auto &e : opt.excl)
        f << " " << e;
      f << "\nopt:";
      for (auto &e : opt.kv)
        f << " " << e.first << "=" << e.second;
      f << "\ntape: " << tape_str(tape) << "\n";
      std::string msg = o.kind == Kind::VIOLATION ? o.res.message : o.crash_info;
      std::istringstream ms(msg);
      std::string l;
      while (std::getline(ms, l))
        f << "# fails: " << l << "\n";
      std::istringstream rs(o.res.render);
      while (std::getline(rs, l))
        f << "# case: " << l << "\n";
    }
  } // namespace

  int run(int argc, char **argv, CaseFn fn, Config (*cfg_for)(const Options &))
  {
    Options opt;
    {
      std::string a0 = argc > 0 ? argv[0] : "";
      auto sl = a0.rfind('/');
      g_harness = sl == std::string::npos ? a0 : a0.substr(sl + 1);
    }
    long seed = 1, cases = 100, max_size = 100;
    int budget_ms = -1;
    std::string out, replay_dir = ".", replay;
    bool force_crash = false;
    std::vector<std::string> known_sigs;
    for (int i = 1; i < argc; ++i)
    {
      std::string a = argv[i];
      auto nxt = [&]() -> std::string {
        if (i + 1 >= argc)
        {
          fprintf(stderr, "missing value for %s\n", a.c_str());
          exit(2);
        }
        return argv[++i];
      };
      if (a == "--prop") opt.prop = nxt();
      else if (a == "--sub") opt.sub = nxt();
      else if (a == "--seed") seed = atol(nxt().c_str());
      else if (a == "--cases") cases = atol(nxt().c_str());
      else if (a == "--max-size") max_size = atol(nxt().c_str());
      else if (a == "--out") out = nxt();
      else if (a == "--replay-dir") replay_dir = nxt();
      else if (a == "--replay") replay = nxt();
      else if (a == "--budget-ms") budget_ms = atoi(nxt().c_str());
      else if (a == "--crash-violation") force_crash = true;
      else if (a == "--known") known_sigs.push_back(nxt()); // substring of a failure message that identifies a listed known finding
      else if (a == "--excl")
      {
        std::istringstream is(nxt());
        std::string e;
        while (std::getline(is, e, ','))
          if (!e.empty())
            opt.excl.insert(e);
      }
      else if (a == "--opt")
      {
        std::string e = nxt();
        auto p = e.find('=');
        if (p != std::string::npos)
          opt.kv[e.substr(0, p)] = e.substr(p + 1);
      }
      else
      {
        fprintf(stderr, "unknown argument %s\n", a.c_str());
        return 2;
      }
    }

    if (!replay.empty())
    {
      std::vector<uint16_t> tape;
      Options ropt = opt;
      if (!read_replay(replay, tape, ropt))
      {
        fprintf(stderr, "cannot read replay file %s\n", replay.c_str());
        return 2;
      }
      // command-line exclusions do not apply to a replay: the file is self-contained
      Config cfg = cfg_for(ropt);
      if (force_crash) cfg.crash_is_violation = true;
      if (budget_ms < 0) budget_ms = cfg.default_budget_ms;
      Outcome o = run_forked(tape, fn, ropt, budget_ms);
      std::cout << "case:\n" << o.res.render << "\n";
      for (auto &fo : o.res.foreign)
        std::cout << "foreign: " << fo << "\n";
      switch (o.kind)
      {
      case Kind::OK: std::cout << "REPLAY-OK\n"; return 0;
      case Kind::DISCARD: std::cout << "REPLAY-DISCARD " << o.res.discard_reason << "\n"; return 0;
      case Kind::VIOLATION: std::cout << "REPLAY-VIOLATION " << o.res.message << "\n"; return 1;
      case Kind::TIMEOUT:
        std::cout << "REPLAY-TIMEOUT " << o.crash_info << "\n";
        return cfg.timeout_is_violation ? 1 : 0;
      case Kind::CRASH:
        std::cout << "REPLAY-CRASH " << o.crash_info << "\n";
        return cfg.crash_is_violation ? 1 : 5;
      }
      return 0;
    }

    Config cfg = cfg_for(opt);
    if (force_crash) cfg.crash_is_violation = true;
    if (budget_ms < 0) budget_ms = cfg.default_budget_ms;

    std::string params = "seed=" + std::to_string(seed) + " max_success=" + std::to_string(cases) + " max_size=" + std::to_string(max_size) +
                         " max_discard_ratio=1000 noshrink=0";
    setenv("RC_PARAMS", params.c_str(), 1);

    Stats stats;
    bool shrinking = false;
    std::vector<uint16_t> last_fail;
    Outcome last_fail_outcome;
    long shrink_steps = 0, foreign_tapes = 0;
    auto t0 = clk::now();
    clk::time_point shrink_start;
    const double shrink_budget_s = atof(opt.get("shrink_s", "90").c_str());

    auto gen = rc::gen::container<std::vector<uint16_t>>(rc::gen::arbitrary<uint16_t>());

    bool ok = rc::check(opt.prop + (opt.sub.empty() ? "" : "/" + opt.sub), [&]() {
      std::vector<uint16_t> tape = *gen;
      if (shrinking)
      {
        double el = std::chrono::duration<double>(clk::now() - shrink_start).count();
        if (el > shrink_budget_s)
          return; // stop shrinking: every further candidate "passes"
        ++shrink_steps;
      }
      Outcome o = run_forked(tape, fn, opt, budget_ms);
      bool fail = o.kind == Kind::VIOLATION || (o.kind == Kind::CRASH && cfg.crash_is_violation) || (o.kind == Kind::TIMEOUT && cfg.timeout_is_violation);
      if (fail && !known_sigs.empty())
      { // a failure at the call site of a listed known finding is excluded (and counted), so that the search continues behind it
        const std::string &msg = o.kind == Kind::VIOLATION ? o.res.message : o.crash_info;
        for (auto &k : known_sigs)
          if (msg.find(k) != std::string::npos)
          {
            fail = false;
            o.kind = Kind::DISCARD;
            o.res.discard_reason = "excluded: fails at the call site of a listed known finding (" + k.substr(0, 60) + ")";
            break;
          }
      }
      if (!shrinking)
      {
        account(stats, o);
        if (!o.res.foreign.empty() && foreign_tapes < 3 && !fail)
        { // a failure of another property's oracle is only counted here, but its tape is kept so that it can be looked at
          ++foreign_tapes;
          std::ostringstream nm;
          nm << replay_dir << "/" << opt.prop << "-foreign-" << std::hex << fnv(tape_str(tape) + opt.sub) << ".tape";
          Outcome fo = o;
          fo.kind = Kind::VIOLATION;
          fo.res.message = "(foreign) " + o.res.foreign.front();
          write_replay(nm.str(), tape, opt, fo);
        }
        if (fail)
        {
          shrinking = true;
          shrink_start = clk::now();
        }
      }
      if (fail)
      {
        // while shrinking, stay on the same kind of failure
        if (last_fail.empty() || last_fail_outcome.kind == o.kind || true)
        {
          last_fail = tape;
          last_fail_outcome = o;
        }
        RC_FAIL(o.kind == Kind::VIOLATION ? o.res.message : o.crash_info);
      }
    });

    double wall = std::chrono::duration<double>(clk::now() - t0).count();
    std::string vpath, vmsg;
    if (!ok && shrinking)
    {
      vmsg = last_fail_outcome.kind == Kind::VIOLATION ? last_fail_outcome.res.message : last_fail_outcome.crash_info;
      std::ostringstream nm;
      nm << replay_dir << "/" << opt.prop << (opt.sub.empty() ? "" : "-" + opt.sub) << "-" << std::hex << fnv(tape_str(last_fail) + opt.sub) << ".tape";
      vpath = nm.str();
      write_replay(vpath, last_fail, opt, last_fail_outcome);
    }
    write_stats(out, stats, opt, seed, wall, vpath, vmsg, shrink_steps);
    if (!vpath.empty())
    {
      std::cout << "SHARD-VIOLATION replay=" << vpath << "\n";
      return 1;
    }
    return 0;
  }
} // namespace pbt
