// Solver-level harness: typed RIDDLE problems through solver::read + solve (C01 C02 C04 C05 C06 C16c C17 C18b).
#include "prob.h"
#include "solver.h"
#include "atom.h"
#include "item.h"
#include "type.h"
#include "predicate.h"
#include "field.h"
#ifdef BUILD_LISTENERS
#include "solver_listener.h"
#include "atom_flaw.h"
#endif
#ifdef WITH_EXECUTOR
#include "executor.h"
#include "executor_listener.h"
#endif
#include <z3++.h>
#include <algorithm>
#include <regex>

using namespace prob;

namespace
{
  E toE(const smt::inf_rational &x)
  {
    auto q = [](const smt::rational &r) { return r.denominator() == 0 ? (r.numerator() > 0 ? Q::pinf() : Q::ninf()) : Q(r.numerator(), r.denominator()); };
    return E(q(x.get_rational()), q(x.get_infinitesimal()));
  }

  // =====================================================================================================================
  // the generated problem
  // =====================================================================================================================
  struct ClassInfo
  {
    std::string name;
    std::vector<std::string> supers;
    std::vector<std::pair<std::string, std::string>> fields; // (type: "real" | "int" | "bool" | class name, name); inherited fields not repeated
    std::vector<std::string> ctor_params;                    // names of own fields set by the constructor, in order (others get initialisers)
    std::map<std::string, NEP> init;                         // field -> initialiser expression (constant)
  };
  struct Instance
  {
    std::string name, cls;
    std::map<std::string, mpq_class> num_fields; // all numeric fields incl. inherited
    std::map<std::string, std::string> obj_fields;
  };
  struct ObjVar
  {
    std::string name, cls;
    std::set<std::string> expected_domain; // instances of cls and its subtypes created before the declaration
  };
  struct Disjunction
  {
    std::vector<std::vector<BEP>> disjuncts;
  };
  struct Problem
  {
    std::ostringstream text;  // declarations (and, for the plain layers, everything)
    std::ostringstream ctext; // constraints read by a second read() call, after the domains of the declared variables were looked at
    std::vector<std::string> reals, ints, bools;
    std::vector<BEP> asserted;
    std::vector<Disjunction> disjunctions;
    std::map<std::string, E> expect_num; // C16c: variable pinned to a constant expression
    std::map<std::string, E> expect_path; // C16c: object.field / atom.parameter determined by constant expressions in other syntactic positions
    std::map<std::string, TV> expect_bool;
    std::vector<ClassInfo> classes;
    std::vector<Instance> instances;
    std::vector<ObjVar> objvars;
    std::set<std::string> feats;
    bool planted = false; // built around a witness: never unsolvable
    std::set<std::string> instance_names() const
    {
      std::set<std::string> s;
      for (auto &i : instances) s.insert(i.name);
      return s;
    }
    const ClassInfo *cls(const std::string &n) const
    {
      for (auto &c : classes)
        if (c.name == n) return &c;
      return nullptr;
    }
    bool is_subtype(const std::string &sub, const std::string &sup) const
    {
      if (sub == sup) return true;
      const ClassInfo *c = cls(sub);
      if (!c) return false;
      for (auto &s : c->supers)
        if (is_subtype(s, sup)) return true;
      return false;
    }
  };

  struct Gen
  {
    pbt::Tape &t;
    const pbt::Options &o;
    Problem &p;
    // witness for planted problems
    std::map<std::string, mpq_class> wnum;
    std::map<std::string, bool> wbool;
    std::map<std::string, std::string> wobj;
    std::map<std::string, E> winst;  // witness-side "instance.field" values
    std::vector<NEP> extra_atoms;     // numeric atoms besides the plain variables (field accesses)
    bool second_batch = false;        // generating constraints for the second read()

    mpq_class konst(bool integer)
    {
      if (integer) return mpq_class(t.range(-6, 12));
      static const long dens[] = {1, 1, 2, 4, 5, 10};
      mpq_class q(t.range(-20, 40), dens[t.pick(6)]);
      q.canonicalize();
      return q;
    }
    // numeric expression over the given variables; linear by construction
    NEP nexpr(const std::vector<std::string> &vars, bool integer, int depth)
    {
      unsigned w = depth <= 0 ? t.pick(3) : t.pick(11);
      if (vars.empty() && extra_atoms.empty() && w >= 1 && w <= 2) w = 0;
      if (vars.empty() && !extra_atoms.empty() && w >= 1 && w <= 2) return extra_atoms[t.pick(extra_atoms.size())];
      switch (w)
      {
      case 0: return nconst(konst(integer), integer);
      case 1:
      case 2:
        if (!extra_atoms.empty() && !integer && t.chance(2, 3)) return extra_atoms[t.pick(extra_atoms.size())];
        return nvar(vars[t.pick(vars.size())]);
      case 3:
      case 4:
      {
        std::vector<NEP> k{nexpr(vars, integer, depth - 1), nexpr(vars, integer, depth - 1)};
        if (t.rare(1, 4)) k.push_back(nexpr(vars, integer, depth - 1));
        return nop(t.flip() ? NE::ADD : NE::SUB, k);
      }
      case 5:
      case 6:
      { // constant * expression, on either side
        NEP c = nconst(konst(integer), integer), e = nexpr(vars, integer, depth - 1);
        p.feats.insert("product with a non-constant factor");
        return nop(NE::MUL, t.flip() ? std::vector<NEP>{c, e} : std::vector<NEP>{e, c});
      }
      case 7:
      { // expression / non-zero constant
        if (integer) return nop(NE::ADD, {nexpr(vars, integer, depth - 1), nconst(konst(true), true)});
        static const long dn[] = {2, -2, 4, 5, -5, 10, 1, -1, 1, 1, -1, 5};
        static const long dd[] = {1, 1, 1, 1, 1, 1, 2, 2, 4, 5, 5, 2};
        unsigned di = t.pick(12);
        mpq_class d(dn[di], dd[di]);
        d.canonicalize();
        p.feats.insert("division");
        return nop(NE::DIV, {nexpr(vars, integer, depth - 1), nconst(d)});
      }
      case 8:
        if (o.has("no_unary_minus")) return nexpr(vars, integer, depth - 1);
        p.feats.insert("unary minus");
        return nop(NE::NEG, {nexpr(vars, integer, depth - 1)});
      case 9:
        if (o.has("no_unary_plus")) return nexpr(vars, integer, depth - 1);
        return nop(NE::POS, {nexpr(vars, integer, depth - 1)});
      default:
      { // constant-only product / quotient (folded by the evaluator)
        NEP a = nconst(konst(integer), integer), b = nconst(konst(integer), integer);
        if (integer || t.flip()) return nop(NE::MUL, {a, b});
        static const long dn[] = {2, -2, 4, 5, 10, 1, -1, 1};
        static const long dd[] = {1, 1, 1, 1, 1, 2, 2, 4};
        unsigned di = t.pick(8);
        mpq_class d(dn[di], dd[di]);
        d.canonicalize();
        return nop(NE::DIV, {a, nconst(d)});
      }
      }
    }
    mpq_class weval(const NEP &n)
    {
      Valuation v;
      for (auto &kv : wnum) v.num[kv.first] = E(Q(kv.second));
      auto r = neval(n, v, wobj, winst);
      return r ? r->r.v : mpq_class(0);
    }
    // a relation over the numeric variables; when planted, it is true under the witness
    BEP relation(bool want_true_under_witness, bool positive = true)
    {
      if (!positive && o.has("relations_only_positive"))
      { // exclusion predicate (known finding: a relation literal may stay undecided at a solution): only boolean variables here
        if (p.bools.empty()) return bconst(want_true_under_witness);
        std::string v = p.bools[t.pick(p.bools.size())];
        if (!p.planted || wbool[v] == want_true_under_witness) return bvar(v);
        return bop(BE::NOT, {bvar(v)});
      }
      bool integer = extra_atoms.empty() && !p.ints.empty() && (p.reals.empty() || t.chance(1, 4));
      const auto &vars = integer ? p.ints : p.reals;
      NEP l = nexpr(vars, integer, 2), r = nexpr(vars, integer, t.chance(1, 2) ? 0 : 1);
      if (second_batch && vars.size() >= 1 && t.chance(2, 3))
      { // constraints created after the first propagation: short relations between (scaled) variables, so that every
        // relation constructor meets variables that are basic in the tableau, with coefficients of either sign
        auto term = [&]() -> NEP {
          NEP v = nvar(vars[t.pick(vars.size())]);
          switch (t.pick(4))
          {
          case 0: return v;
          case 1: return nop(NE::MUL, {nconst(konst(integer), integer), v});
          case 2: return nop(NE::NEG, {v});
          default: return nop(NE::ADD, {v, nconst(konst(integer), integer)});
          }
        };
        l = term();
        r = term();
      }
      int rel = t.pick((o.has("no_neq_over_arith") || o.has("relations_only_positive")) ? 5 : 6);
      if (second_batch && t.flip()) rel = t.flip() ? 0 : 4; // strict relations have their own constructors
      if (rel == 5) p.feats.insert("arithmetic disequality");
      if (rel == 2) p.feats.insert("arithmetic equality");
      if (rel == 0 || rel == 4) p.feats.insert("strict inequality");
      BEP b = brel(rel, l, r);
      if (p.planted)
      {
        Valuation v;
        for (auto &kv : wnum) v.num[kv.first] = E(Q(kv.second));
        EvalCtx c{v, wobj, winst, p.instance_names()};
        TV tv = beval(b, c);
        if ((tv == T) != want_true_under_witness)
        { // shift the right side so that the relation gets the wanted truth value with a margin
          mpq_class lv = weval(l), rv = weval(r);
          mpq_class shift;
          bool wt = want_true_under_witness;
          switch (rel)
          {
          case 0: case 1: shift = mpq_class(lv - rv) + (wt ? 1 : -1); break;
          case 3: case 4: shift = mpq_class(lv - rv) + (wt ? -1 : 1); break;
          case 2: shift = mpq_class(lv - rv) + (wt ? 0 : 1); break;
          default: shift = mpq_class(lv - rv) + (wt ? 1 : 0); break;
          }
          // r := r + shift, printed as an extra constant (kept a finite decimal: witness values and constants are such)
          b = brel(rel, l, nop(NE::ADD, {r, nconst(shift, integer)}));
          EvalCtx c2{v, wobj, winst, p.instance_names()};
          if ((beval(b, c2) == T) != want_true_under_witness) return bconst(want_true_under_witness);
        }
      }
      return b;
    }
    BEP bexpr(int depth, bool want, bool positive = true, bool asserted = true)
    { // asserted: reachable from the asserted constraint through conjunctions only // when planted: an expression that evaluates to `want` under the witness.
      // positive: the expression is asserted (possibly through & and |), so its literals get decided by the search
      unsigned w = depth <= 0 ? t.pick(4) : t.pick(12);
      if (!asserted && o.has("disjunction_only_asserted") && (w == 7 || w == 8 || w == 9)) w = 5; // exclusion predicate (known finding: a disjunction that is not asserted is forced true)
      switch (w)
      {
      case 0:
        if (!p.bools.empty())
        {
          std::string v = p.bools[t.pick(p.bools.size())];
          if (!p.planted || wbool[v] == want) return bvar(v);
          return bop(BE::NOT, {bvar(v)});
        }
        [[fallthrough]];
      case 1:
      case 2:
      case 3: return (p.reals.empty() && p.ints.empty()) ? bconst(want) : relation(want, positive);
      case 4: return bop(BE::NOT, {bexpr(depth - 1, !want, false, false)});
      case 5:
      case 6:
      {
        int n = t.range(2, 3);
        std::vector<BEP> k;
        // AND true: all true; AND false: at least one false
        int special = t.pick(n);
        for (int i = 0; i < n; ++i) k.push_back(bexpr(depth - 1, want ? true : (i == special ? false : t.flip()), positive, asserted));
        return bop(BE::AND, k);
      }
      case 7:
      case 8:
      {
        int n = t.range(2, 3);
        std::vector<BEP> k;
        int special = t.pick(n);
        for (int i = 0; i < n; ++i) k.push_back(bexpr(depth - 1, want ? (i == special ? true : t.flip()) : false, positive, false));
        p.feats.insert(asserted ? "disjunction expression (asserted)" : "disjunction expression (not asserted)");
        return bop(BE::OR, k);
      }
      case 9:
      { // a -> b
        p.feats.insert("implication");
        if (want)
        {
          bool a = t.flip();
          return bop(BE::IMPL, {bexpr(depth - 1, a, false, false), bexpr(depth - 1, a ? true : t.flip(), positive, false)});
        }
        return bop(BE::IMPL, {bexpr(depth - 1, true, false, false), bexpr(depth - 1, false, positive, false)});
      }
      case 10:
      {
        if (o.has("no_xor")) return bexpr(depth - 1, want);
        p.feats.insert("exactly-one expression");
        int n = t.range(2, 3);
        std::vector<BEP> k;
        int special = t.pick(n);
        if (want)
          for (int i = 0; i < n; ++i) k.push_back(bexpr(depth - 1, i == special, false, false));
        else
        { // zero or two true
          bool zero = t.flip();
          for (int i = 0; i < n; ++i) k.push_back(bexpr(depth - 1, zero ? false : (i == special || i == (special + 1) % n), false, false));
        }
        return bop(BE::XOR, k);
      }
      default:
      {
        p.feats.insert("boolean (dis)equality");
        bool eq = t.flip();
        bool a = t.flip();
        bool b2 = (want == eq) ? a : !a;
        return bop(eq ? BE::EQB : BE::NEQB, {bexpr(depth - 1, a, false, false), bexpr(depth - 1, b2, false, false)});
      }
      }
    }
    // has the expression a negation / disjunction that is only "defined" (exclusion predicates for known findings look at shapes)
    void declare_vars()
    {
      int nr = t.range(1, 4), ni = t.range(0, 2), nb = t.range(0, 3);
      for (int i = 0; i < nr; ++i)
      {
        std::string n = "x" + std::to_string(i);
        p.reals.push_back(n);
        wnum[n] = konst(false);
        p.text << "real " << n << ";\n";
      }
      for (int i = 0; i < ni; ++i)
      {
        std::string n = "k" + std::to_string(i);
        p.ints.push_back(n);
        wnum[n] = konst(true);
        p.text << "int " << n << ";\n";
      }
      for (int i = 0; i < nb; ++i)
      {
        std::string n = "b" + std::to_string(i);
        p.bools.push_back(n);
        wbool[n] = t.flip();
        p.text << "bool " << n << ";\n";
      }
    }
    void constraints()
    {
      int n = t.range(1, 7);
      for (int i = 0; i < n; ++i)
      {
        if (t.rare(1, 5) && !o.has("no_disjunction_statement"))
        {
          p.feats.insert("disjunction statement");
          Disjunction d;
          int k = t.range(2, 3);
          int good = t.pick(k);
          p.text << "{\n";
          for (int j = 0; j < k; ++j)
          {
            std::vector<BEP> cs;
            int m = t.range(1, 2);
            for (int q = 0; q < m; ++q)
            {
              // inside a branch a disjunction expression is only conditionally asserted (known finding KF2: its flaw is not conditional)
              BEP b = bexpr(1, p.planted ? (j == good ? true : t.flip()) : true, true, false);
              cs.push_back(b);
              p.text << "  " << bprint(b) << ";\n";
            }
            d.disjuncts.push_back(cs);
            if (j + 1 < k) p.text << "} or {\n";
          }
          p.text << "}\n";
          p.disjunctions.push_back(d);
          continue;
        }
        BEP b = bexpr(2, true);
        p.asserted.push_back(b);
        p.text << bprint(b) << ";\n";
      }
    }
    // C16 (c): variables pinned to constant expressions, directly and through equalities
    // constant expressions in the other syntactic positions the statement names: field initialisers, constructor arguments,
    // predicate arguments and rule bodies
    void pinned_positions()
    {
      auto cexpr = [&](mpq_class &v) -> NEP {
        for (int k = 0; k < 4; ++k)
        {
          NEP e = nexpr({}, false, 2);
          auto val = neval(e, Valuation(), {}, {});
          if (val) { v = val->r.v; return e; }
        }
        v = 1;
        return nconst(1);
      };
      mpq_class v1, v2, v3, v4, v5;
      NEP e1 = cexpr(v1), e2 = cexpr(v2), e3 = cexpr(v3), e4 = cexpr(v4), e5 = cexpr(v5);
      p.text << "class EA {\n  real f = " << nprint(e1) << ";\n  real g;\n  real h;\n  EA(real a) : g(a), h(" << nprint(e5) << ") {}\n}\n";
      p.text << "EA ea = new EA(" << nprint(e2) << ");\n";
      p.text << "predicate EP(real x, real y) {\n  y == x + (" << nprint(e3) << ");\n}\n";
      p.text << "goal eg = new EP(x: " << nprint(e4) << ");\n";
      p.expect_path["ea.f"] = E(Q(v1));
      p.expect_path["ea.g"] = E(Q(v2));
      p.expect_path["ea.h"] = E(Q(v5));
      p.expect_path["eg.x"] = E(Q(v4));
      p.expect_path["eg.y"] = E(Q(mpq_class(v3 + v4)));
      p.feats.insert("constant expressions as field initialiser, constructor argument, initialiser-list argument, predicate argument and in a rule body");
    }
    void pinned()
    {
      int n = t.range(1, 4);
      for (int i = 0; i < n; ++i)
      {
        std::string name = "v" + std::to_string(i);
        bool integer = t.chance(1, 4);
        NEP e = nexpr({}, integer, 3);
        auto val = neval(e, Valuation(), {}, {});
        if (!val) continue;
        if (t.flip())
          p.text << (integer ? "int " : "real ") << name << " = " << nprint(e) << ";\n";
        else
        {
          p.text << (integer ? "int " : "real ") << name << ";\n" << name << " == " << nprint(e) << ";\n";
          p.feats.insert("pinned through an equality");
        }
        p.expect_num[name] = *val;
        (integer ? p.ints : p.reals).push_back(name);
        wnum[name] = val->r.v;
      }
      int nb = t.range(0, 3);
      for (int i = 0; i < nb; ++i)
      {
        std::string name = "c" + std::to_string(i);
        // a boolean expression over constants only
        std::function<BEP(int)> cb = [&](int d) -> BEP {
          unsigned w = d <= 0 ? t.pick(2) : t.pick(9);
          switch (w)
          {
          case 0: return bconst(t.flip());
          case 1:
          {
            NEP l = nexpr({}, false, 1), r = nexpr({}, false, 1);
            return brel(t.pick(6), l, r);
          }
          case 2: return bop(BE::NOT, {cb(d - 1)});
          case 3: return bop(BE::AND, {cb(d - 1), cb(d - 1)});
          case 4: return o.has("disjunction_only_asserted") ? bop(BE::AND, {cb(d - 1), cb(d - 1)}) : bop(BE::OR, {cb(d - 1), cb(d - 1)});
          case 5: return o.has("disjunction_only_asserted") ? bop(BE::EQB, {cb(d - 1), cb(d - 1)}) : bop(BE::IMPL, {cb(d - 1), cb(d - 1)});
          case 6: return o.has("no_xor") ? cb(d - 1) : bop(BE::XOR, {cb(d - 1), cb(d - 1)});
          case 7: return bop(BE::EQB, {cb(d - 1), cb(d - 1)});
          default: return bop(BE::NEQB, {cb(d - 1), cb(d - 1)});
          }
        };
        BEP e = cb(2);
        Valuation v;
        EvalCtx c{v, {}, {}, {}};
        TV tv = beval(e, c);
        if (tv == U) continue;
        p.text << "bool " << name << " = " << bprint(e) << ";\n";
        p.expect_bool[name] = tv;
        p.feats.insert("boolean constant expression");
      }
    }
  };

  // =====================================================================================================================
  // running a problem and reading the solution back
  // =====================================================================================================================
  enum Verdict { SOLVED, UNSOLVABLE, REJECTED };
  struct Outcome
  {
    Verdict verdict = REJECTED;
    std::string error;
    Valuation val;
    std::map<std::string, E> inst_fields; // instance.field -> value
    std::map<std::string, std::set<std::string>> domains_after_read;
    std::map<std::string, E> path_vals;
    std::vector<std::string> json_mismatch; // core::to_json() against the API
    long json_compared = 0;
  };

  void collect(ratio::solver &s, const Problem &p, Outcome &out, bool after_solve)
  {
    std::map<const void *, std::string> inst_name;
    for (auto &i : p.instances)
    {
      try
      {
        ratio::expr e = s.get(i.name);
        inst_name[static_cast<smt::var_value *>(&*e)] = i.name;
      }
      catch (const std::exception &)
      {
      }
    }
    auto name_of = [&](smt::var_value *v) -> std::string {
      auto it = inst_name.find(v);
      if (it != inst_name.end()) return it->second;
      if (ratio::string_item *si = dynamic_cast<ratio::string_item *>(v)) return "\"" + si->get_value() + "\"";
      return "?unknown-instance";
    };
    auto domain_of = [&](const std::string &name) {
      std::set<std::string> d;
      ratio::expr e = s.get(name);
      if (ratio::var_item *vi = dynamic_cast<ratio::var_item *>(&*e))
      {
        for (auto *v : s.get_ov_theory().value(vi->ev)) d.insert(name_of(v));
      }
      else
        d.insert(name_of(static_cast<smt::var_value *>(&*e)));
      return d;
    };
    if (!after_solve)
    {
      for (auto &ov : p.objvars) out.domains_after_read[ov.name] = domain_of(ov.name);
      return;
    }
    auto num_of = [&](ratio::expr e) -> std::optional<E> {
      if (ratio::arith_item *ai = dynamic_cast<ratio::arith_item *>(&*e))
        return toE(s.arith_value(ratio::arith_expr(ai)));
      return std::nullopt;
    };
    for (auto *lst : {&p.reals, &p.ints})
      for (auto &n : *lst)
      {
        auto v = num_of(s.get(n));
        if (v) out.val.num[n] = *v;
      }
    for (auto &n : p.bools)
    {
      ratio::expr e = s.get(n);
      if (ratio::bool_item *bi = dynamic_cast<ratio::bool_item *>(&*e))
      {
        smt::lbool v = s.get_sat_core().value(bi->l);
        out.val.boo[n] = v == smt::True ? T : v == smt::False ? F : U;
      }
    }
    for (auto &kv : p.expect_bool)
    {
      ratio::expr e = s.get(kv.first);
      if (ratio::bool_item *bi = dynamic_cast<ratio::bool_item *>(&*e))
      {
        smt::lbool v = s.get_sat_core().value(bi->l);
        out.val.boo[kv.first] = v == smt::True ? T : v == smt::False ? F : U;
      }
    }
    for (auto &i : p.instances)
    {
      ratio::expr e = s.get(i.name);
      for (auto &f : i.num_fields)
      {
        auto v = num_of(e->get(f.first));
        if (v) out.inst_fields[i.name + "." + f.first] = *v;
      }
    }
    for (auto &ov : p.objvars) out.val.obj[ov.name] = domain_of(ov.name);
    for (auto &kv : p.expect_path)
    {
      try
      {
        auto dot = kv.first.find('.');
        ratio::expr o = s.get(kv.first.substr(0, dot));
        auto v = num_of(o->get(kv.first.substr(dot + 1)));
        if (v) out.path_vals[kv.first] = *v;
      }
      catch (const std::exception &)
      {
      }
    }
    // the solution as the JSON of core::to_json() (what `oRatio <files> <out.json>` writes) against the API values
    {
      smt::json j = s.to_json();
      auto jq = [](smt::json &r) { return Q(static_cast<smt::long_val &>(*r->get("num")).get(), static_cast<smt::long_val &>(*r->get("den")).get()); };
      auto jE = [&](smt::json &v) { E e(jq(v)); if (v->has("inf")) e.e = jq(v->get("inf")); return e; };
      auto cmp_exprs = [&](smt::json &arr_j, ratio::env &en, const std::string &where) {
        const smt::array_val &arr = static_cast<const smt::array_val &>(*arr_j);
        for (size_t i = 0; i < arr.size(); ++i)
        {
          smt::json x = arr.get(i);
          std::string name = static_cast<smt::string_val &>(*x->get("name")).get();
          smt::json v = x->get("value");
          ratio::item *ep = nullptr;
          try { ratio::expr e0 = en.get(name); ep = &*e0; } catch (const std::exception &) { continue; }
          ratio::item &e_ref = *ep; // kept alive by the environment that holds it
          ratio::item *e = &e_ref;
          if (ratio::arith_item *ai = dynamic_cast<ratio::arith_item *>(e))
          {
            if (!v->has("num")) { out.json_mismatch.push_back(where + name + ": the JSON has no numeric value"); continue; }
            E api = toE(s.arith_value(ratio::arith_expr(ai))), js = jE(v);
            ++out.json_compared;
            if (qx::cmp(api, js) != 0) out.json_mismatch.push_back(where + name + " is " + qx::str(js) + " in the JSON of the solution and " + qx::str(api) + " through arith_value");
            if (v->has("lb") && qx::cmp(jE(v->get("lb")), js) > 0) out.json_mismatch.push_back(where + name + ": the JSON value " + qx::str(js) + " is below its own lower bound " + qx::str(jE(v->get("lb"))));
            if (v->has("ub") && qx::cmp(jE(v->get("ub")), js) < 0) out.json_mismatch.push_back(where + name + ": the JSON value " + qx::str(js) + " is above its own upper bound " + qx::str(jE(v->get("ub"))));
          }
          else if (ratio::bool_item *bi = dynamic_cast<ratio::bool_item *>(e))
          {
            if (!v->has("val")) continue;
            std::string js = static_cast<smt::string_val &>(*v->get("val")).get();
            smt::lbool api = s.get_sat_core().value(bi->l);
            ++out.json_compared;
            if (js != (api == smt::True ? "True" : api == smt::False ? "False" : "Undefined")) out.json_mismatch.push_back(where + name + " is " + js + " in the JSON of the solution but not through the API");
          }
        }
      };
      if (j->has("exprs")) cmp_exprs(j->get("exprs"), s, "");
      if (j->has("atoms"))
      {
        const smt::array_val &arr = static_cast<const smt::array_val &>(*j->get("atoms"));
        for (size_t i = 0; i < arr.size(); ++i)
        {
          smt::json a = arr.get(i);
          ratio::atom *at = reinterpret_cast<ratio::atom *>((uintptr_t) static_cast<smt::long_val &>(*a->get("id")).get());
          std::string st = static_cast<smt::string_val &>(*a->get("state")).get();
          smt::lbool sv = s.get_sat_core().value(at->get_sigma());
          ++out.json_compared;
          if (st != (sv == smt::True ? "Active" : sv == smt::False ? "Unified" : "Inactive")) out.json_mismatch.push_back("an atom is " + st + " in the JSON of the solution but not through the API");
          if (a->has("pars")) cmp_exprs(a->get("pars"), *at, "atom parameter ");
        }
      }
    }
  }

  std::function<void(ratio::solver &)> g_after_solve; // reads more of the solution while the solver is alive (timelines layer)
  std::function<void(ratio::solver &)> g_on_solver;   // called right after the solver is created (installs listeners)
  std::function<void()> g_on_solver_gone;             // called before the solver is destroyed

  Outcome run(const Problem &p, const std::string &text, const std::string &ctext)
  {
    Outcome out;
    ratio::solver s;
    struct Gone { ~Gone() { if (g_on_solver_gone) g_on_solver_gone(); } } gone; // listeners go before the solver
    if (g_on_solver) g_on_solver(s);
    try
    {
      s.read(text);
      collect(s, p, out, false);
      if (!ctext.empty()) s.read(ctext);
    }
    catch (const ratio::unsolvable_exception &)
    {
      out.verdict = UNSOLVABLE;
      out.error = "unsolvable while reading";
      return out;
    }
    catch (const ratio::inconsistency_exception &)
    {
      out.verdict = UNSOLVABLE;
      out.error = "inconsistent while reading";
      return out;
    }
    catch (const std::exception &e)
    {
      out.verdict = REJECTED;
      out.error = e.what();
      return out;
    }
    bool ok = false;
    try
    {
      ok = s.solve();
    }
    catch (const ratio::unsolvable_exception &)
    {
      out.verdict = UNSOLVABLE;
      out.error = "unsolvable_exception from solve()";
      return out;
    }
    catch (const ratio::inconsistency_exception &)
    {
      out.verdict = UNSOLVABLE;
      out.error = "inconsistency_exception from solve()";
      return out;
    }
    catch (const std::exception &e)
    {
      out.verdict = REJECTED;
      out.error = std::string("exception from solve(): ") + e.what();
      return out;
    }
    if (!ok)
    {
      out.verdict = UNSOLVABLE;
      out.error = "solve() returned false";
      return out;
    }
    out.verdict = SOLVED;
    collect(s, p, out, true);
    if (g_after_solve) g_after_solve(s);
    return out;
  }

  // ---- Z3 encoding of the constraint-only fragment (C02 a) --------------------------------------------------------------
  struct Z
  {
    z3::context z;
    z3::solver s;
    const Problem &p;
    std::map<std::string, int> inst_id;
    Z(const Problem &p) : s(z), p(p)
    {
      int i = 0;
      for (auto &in : p.instances) inst_id[in.name] = i++;
      for (auto &ov : p.objvars)
      {
        z3::expr_vector dom(z);
        for (auto &d : ov.expected_domain) dom.push_back(z.int_const(("o_" + ov.name).c_str()) == inst_id[d]);
        s.add(dom.empty() ? z.bool_val(false) : z3::mk_or(dom));
      }
    }
    z3::expr q(const mpq_class &v) { return z.real_val(v.get_str().c_str()); }
    z3::expr num(const NEP &n)
    {
      switch (n->k)
      {
      case NE::CONST: return q(n->c);
      case NE::VAR: return z.real_const(n->name.c_str());
      case NE::FIELD:
      {
        z3::expr ov = z.int_const(("o_" + n->objvar).c_str());
        z3::expr e = q(0);
        for (auto &in : p.instances)
        {
          auto it = in.num_fields.find(n->fld);
          if (it != in.num_fields.end()) e = z3::ite(ov == inst_id[in.name], q(it->second), e);
        }
        return e;
      }
      case NE::NEG: return -num(n->kids[0]);
      case NE::POS: return num(n->kids[0]);
      default:
      {
        z3::expr e = num(n->kids[0]);
        for (size_t i = 1; i < n->kids.size(); ++i)
        {
          z3::expr k = num(n->kids[i]);
          e = n->k == NE::ADD ? e + k : n->k == NE::SUB ? e - k : n->k == NE::MUL ? e * k : e / k;
        }
        return e;
      }
      }
    }
    z3::expr obj(const std::string &n)
    {
      auto it = inst_id.find(n);
      if (it != inst_id.end()) return z.int_val(it->second);
      return z.int_const(("o_" + n).c_str());
    }
    z3::expr boo(const BEP &b)
    {
      switch (b->k)
      {
      case BE::CONST: return z.bool_val(b->c);
      case BE::VAR: return z.bool_const(b->name.c_str());
      case BE::REL:
      {
        z3::expr l = num(b->l), r = num(b->r);
        switch (b->rel)
        {
        case 0: return l < r;
        case 1: return l <= r;
        case 2: return l == r;
        case 3: return l >= r;
        case 4: return l > r;
        default: return l != r;
        }
      }
      case BE::NOT: return !boo(b->kids[0]);
      case BE::AND:
      case BE::OR:
      {
        z3::expr_vector v(z);
        for (auto &k : b->kids) v.push_back(boo(k));
        return b->k == BE::AND ? z3::mk_and(v) : z3::mk_or(v);
      }
      case BE::XOR:
      {
        z3::expr_vector v(z);
        for (auto &k : b->kids) v.push_back(z3::ite(boo(k), z.int_val(1), z.int_val(0)));
        return z3::sum(v) == 1;
      }
      case BE::IMPL: return z3::implies(boo(b->kids[0]), boo(b->kids[1]));
      case BE::EQB: return boo(b->kids[0]) == boo(b->kids[1]);
      case BE::NEQB: return boo(b->kids[0]) != boo(b->kids[1]);
      case BE::OBJEQ: return obj(b->name) == obj(b->name2);
      case BE::OBJNEQ: return obj(b->name) != obj(b->name2);
      }
      return z.bool_val(true);
    }
    z3::check_result satisfiable()
    {
      for (auto &b : p.asserted) s.add(boo(b));
      for (auto &d : p.disjunctions)
      {
        z3::expr_vector alts(z);
        for (auto &cs : d.disjuncts)
        {
          z3::expr_vector all(z);
          for (auto &b : cs) all.push_back(boo(b));
          alts.push_back(z3::mk_and(all));
        }
        s.add(z3::mk_or(alts));
      }
      for (auto &kv : p.expect_num) s.add(z.real_const(kv.first.c_str()) == q(kv.second.r.v));
      z3::params pr(z);
      pr.set("timeout", 10000u);
      s.set(pr);
      return s.check();
    }
  };

  // ---- solution validators ------------------------------------------------------------------------------------------------
  // every asserted constraint holds for every remaining choice of the object variables it mentions
  bool holds_for_all_choices(const BEP &b, const Problem &p, const Outcome &out, std::string &why)
  {
    std::set<std::string> ovs;
    std::set<std::string> insts = p.instance_names();
    bobjs(b, insts, ovs);
    std::vector<std::string> names(ovs.begin(), ovs.end());
    std::vector<std::vector<std::string>> doms;
    for (auto &n : names)
    {
      auto it = out.val.obj.find(n);
      if (it == out.val.obj.end() || it->second.empty()) { why = "object variable " + n + " has an empty domain"; return false; }
      doms.emplace_back(it->second.begin(), it->second.end());
    }
    std::vector<size_t> idx(names.size(), 0);
    while (true)
    {
      EvalCtx c{out.val, {}, out.inst_fields, insts};
      for (size_t i = 0; i < names.size(); ++i) c.chosen[names[i]] = doms[i][idx[i]];
      if (beval(b, c) == F)
      {
        why = "";
        for (size_t i = 0; i < names.size(); ++i) why += names[i] + "=" + doms[i][idx[i]] + " ";
        return false;
      }
      size_t k = 0;
      while (k < idx.size() && ++idx[k] == doms[k].size()) idx[k++] = 0;
      if (k == idx.size()) break;
    }
    return true;
  }
  std::string show_values(const Outcome &out)
  {
    std::ostringstream s;
    for (auto &kv : out.val.num) s << kv.first << "=" << qx::str(kv.second) << " ";
    for (auto &kv : out.val.boo) s << kv.first << "=" << (kv.second == T ? "T" : kv.second == F ? "F" : "U") << " ";
    for (auto &kv : out.val.obj)
    {
      s << kv.first << "={";
      for (auto &d : kv.second) s << d << " ";
      s << "} ";
    }
    return s.str();
  }

#include "h_prob_objects.inc" // NOLINT: class / instance / object-variable layer of the generator
#include "h_prob_fields.inc"  // NOLINT: layer L1b, typed fields and access chains (C17)
static bool g_expect_unsolvable = false; // set by generators that build problems known to have no solution
#include "h_prob_timelines.inc"
#include "h_prob_temporal.inc" // NOLINT: StateVariable / ReusableResource layer and the plan validators
#include "h_prob_rules.inc"     // NOLINT: predicates with rules, facts, goals; derivation-structure checks (C03)
#include "h_prob_exec.inc"      // NOLINT: executor scenario (C19)

  // =====================================================================================================================
  // the case
  // =====================================================================================================================
  void case_prob(pbt::Tape &t, pbt::Result &r, const pbt::Options &o)
  {
    const std::string &P = o.prop;
    if (o.kv.count("text"))
    { // literal program from a replay file (ledger entries that must not depend on the generator): judged on abnormal
      // termination / leaks by the driver and on the verdict against `expect=solved|unsolvable`
      std::string all = o.kv.at("text"), text = all, ctext;
      const std::string sep = "// ---- second read() ----\n";
      auto at = all.find(sep);
      if (at != std::string::npos) { text = all.substr(0, at); ctext = all.substr(at + sep.size()); }
      fprintf(stderr, "-- program (in case the process dies) --\n%s%s-- end of program --\n", text.c_str(), ctext.c_str());
      Problem none;
      std::vector<std::string> c06_all;
      if (P == "C06")
        g_after_solve = [&c06_all](ratio::solver &s) { // C06 on every interval / impulse atom of every predicate of the solver
          auto numv = [&](ratio::expr e) { return toE(s.arith_value(ratio::arith_expr(static_cast<ratio::arith_item *>(&*e)))); };
          E origin = numv(s.get("origin")), horizon = numv(s.get("horizon"));
          std::vector<ratio::predicate *> preds;
          for (auto &kv : s.get_predicates()) preds.push_back(kv.second);
          std::vector<ratio::type *> q;
          for (auto &kv : s.get_types()) q.push_back(kv.second);
          while (!q.empty())
          {
            ratio::type *tp = q.back();
            q.pop_back();
            for (auto &kv : tp->get_predicates()) preds.push_back(kv.second);
            for (auto &kv : tp->get_types()) q.push_back(kv.second);
          }
          for (auto *pr : preds)
            for (auto &ae : pr->get_instances())
            {
              ratio::atom *at = dynamic_cast<ratio::atom *>(&*ae);
              if (!at || &at->get_type() != pr || s.get_sat_core().value(at->get_sigma()) != smt::True) continue;
              if (s.is_interval(*at))
              {
                E st = numv(at->get("start")), en = numv(at->get("end")), du = numv(at->get("duration"));
                if (qx::cmp(origin, st) > 0 || qx::cmp(st, en) > 0 || qx::cmp(en, horizon) > 0)
                  c06_all.push_back("active atom of " + pr->get_name() + " violates origin <= start <= end <= horizon: origin=" + qx::str(origin) + " start=" + qx::str(st) + " end=" + qx::str(en) + " horizon=" + qx::str(horizon));
                if (qx::cmp(du, qx::esub(en, st)) != 0 || qx::cmp(du, E(Q(0))) < 0)
                  c06_all.push_back("active atom of " + pr->get_name() + ": duration=" + qx::str(du) + " but end - start=" + qx::str(qx::esub(en, st)));
              }
              else if (s.is_impulse(*at))
              {
                E a = numv(at->get("at"));
                if (qx::cmp(origin, a) > 0 || qx::cmp(a, horizon) > 0) c06_all.push_back("active impulse atom of " + pr->get_name() + " is outside [origin, horizon]: at=" + qx::str(a) + " horizon=" + qx::str(horizon));
              }
            }
        };
      Outcome out = run(none, text, ctext);
      std::string verdict = out.verdict == SOLVED ? "solved" : out.verdict == UNSOLVABLE ? "unsolvable" : "rejected";
      r.render = all + "-- verdict: " + verdict + (out.error.empty() ? "" : " (" + out.error + ")") + "\n";
      std::string expect = o.get("expect", "");
      if (!expect.empty() && expect != verdict)
      {
        r.violation = true;
        r.message = "the program has the known verdict `" + expect + "` but the solver reports `" + verdict + "`" + (out.error.empty() ? "" : " (" + out.error + ")");
      }
      if (!r.violation && !c06_all.empty()) { r.violation = true; r.message = c06_all[0]; }
      for (auto &m : c06_all) r.render += "!! " + m + "\n";
      r.nontrivial = true;
      return;
    }
    Problem p;
    Gen g{t, o, p};
    std::string layer = o.get("layer", "L0");
    if (P == "C16" && layer != "evalp" && layer != "L1m") layer = "eval";
    if (P == "C17" && layer != "L1b") layer = "L1";
    if (((P == "C04" && layer != "L3d") || P == "C05" || (P == "C06" && layer != "L3b") || P == "C19")) layer = "L3";
    if (P == "C03" && layer != "L2p" && layer != "L2c") layer = "L2";
    p.planted = layer == "L3" ? true : (P == "C02" ? t.chance(1, 2) : t.chance(2, 3));
    Timelines tl;
    Rules rl;
    Shared sh;
    Temporal tmp;
    Fields flds;
    Methods mths;
    std::vector<std::string> c03, c19;
    std::ostringstream xlog;
    g_c03_struct.clear();
    g_patoms.clear();
    if (layer == "L2" || layer == "L2c")
    {
      if (layer == "L2c") gen_cycle(g, rl); else
      gen_rules(g, rl);
#ifdef BUILD_LISTENERS
      g_on_solver = [](ratio::solver &s) { g_rec = new Recorder(s); };
      g_on_solver_gone = []() { delete g_rec; g_rec = nullptr; };
      r.classes.insert("derivation structure recorded through the solver listener");
#endif
      g_after_solve = [&rl](ratio::solver &s) {
        read_atoms(s, rl);
#ifdef BUILD_LISTENERS
        check_structure(s);
#endif
      };
    }
    else if (layer == "L1b")
    {
      gen_fields(g, flds);
    }
    else if (layer == "L1m")
    {
      gen_methods(g, mths);
    }
    else if (layer == "L3d")
    {
      gen_branches(g, tl);
      g_plan = Plan();
      g_after_solve = [&tl](ratio::solver &s) { read_plan(s, tl, g_plan); read_extracted(s, tl, g_plan); };
    }
    else if (layer == "L3b")
    {
      gen_temporal(g, tmp);
      g_plan = Plan();
      g_after_solve = [&tmp](ratio::solver &s) { read_plan_temporal(s, tmp, g_plan); };
    }
    else if (layer == "L2p")
    {
      gen_shared(g, sh, rl);
      g_after_solve = [&rl](ratio::solver &s) { read_atoms(s, rl); };
    }
    else if (layer == "evalp")
    {
      p.planted = true;
      g.pinned_positions();
      g.pinned();
    }
    else if (layer == "eval")
    {
      p.planted = true;
      g.pinned();
      if (t.flip()) { g.declare_vars(); g.constraints(); }
    }
    else if (layer == "L1")
    {
      g.declare_vars();
      gen_objects(g);
      {
        std::string before = p.text.str();
        g.constraints();
        std::string after = p.text.str();
        p.ctext << after.substr(before.size());
        p.text.str(before);
        p.text.seekp(0, std::ios_base::end);
      }
    }
    else if (layer == "L3")
    {
      gen_timelines(g, tl);
      g_plan = Plan();
      g_after_solve = [&tl](ratio::solver &s) { read_plan(s, tl, g_plan); read_extracted(s, tl, g_plan); };
#ifdef WITH_EXECUTOR
      if (P == "C19")
      {
        static const long un[] = {1, 1, 2};
        static const long ud[] = {1, 2, 1};
        unsigned ui = t.pick(3);
        smt::rational upt(un[ui], ud[ui]);
        const bool one_delay = o.has("one_delay_per_tick");
        const bool last_only = o.has("adapt_only_last_pending");
        const bool counts_unified = o.has("adapt_counts_unified_atoms");
        const bool any_delay = o.get("anydelay", "") == "1";
        g_on_solver = [&t, upt, one_delay, last_only, counts_unified, any_delay](ratio::solver &s) {
          g_executor.reset(new ratio::executor(s, upt));
          g_erec.reset(new ExecRec(*g_executor, s, t, upt));
          g_erec->one_delay_per_tick = one_delay;
          g_erec->adapt_only_last_pending = last_only;
          g_erec->adapt_counts_unified = counts_unified;
          g_erec->any_delay = any_delay;
        };
        g_on_solver_gone = []() { g_erec.reset(); g_executor.reset(); };
        g_after_solve = [&](ratio::solver &s) {
          read_plan(s, tl, g_plan);
          run_execution(s, t, tl, c19, r, xlog);
        };
      }
#endif
    }
    else
    {
      g.declare_vars();
      if (t.flip()) g.pinned();
      g.constraints();
      if (t.chance(1, 2))
      { // a second batch of constraints read by a second read(): the first read() ends with a propagation, so these
        // constraints are translated against a tableau that has already been pivoted (basic variables, tightened bounds)
        std::string before = p.text.str();
        g.second_batch = true;
        g.constraints();
        g.second_batch = false;
        std::string after = p.text.str();
        p.ctext << after.substr(before.size());
        p.text.str(before);
        p.text.seekp(0, std::ios_base::end);
        p.feats.insert("constraints added by a second read()");
      }
    }
    std::string text = p.text.str(), ctext = p.ctext.str();
    std::ostringstream log;
    log << text << (ctext.empty() ? "" : "// ---- second read() ----\n" + ctext);
    fprintf(stderr, "-- program (in case the process dies) --\n%s%s-- end of program --\n", text.c_str(), ctext.c_str());
    Outcome out = run(p, text, ctext);
    log << "-- verdict: " << (out.verdict == SOLVED ? "solved" : out.verdict == UNSOLVABLE ? "unsolvable" : "rejected") << (out.error.empty() ? "" : " (" + out.error + ")") << "\n";
    if (out.verdict == SOLVED) log << "-- values: " << show_values(out) << "\n";
    log << xlog.str();
    if ((layer == "L2" || layer == "L2c") && out.verdict == SOLVED)
    {
      for (auto &a : g_patoms)
      {
        log << "-- atom " << a.pred << "(";
        for (auto &kv : a.args) log << kv.first << "=" << kv.second << " ";
        log << ") " << (a.state == 1 ? "Active" : a.state == 0 ? "Unified" : "Inactive") << "\n";
      }
      check_rules(rl, c03, r);
    }
    std::vector<std::string> c01, c02, c16, c17, c18, c04, c05, c06;
    bool evaluated_mixed = false;
    if (out.verdict == REJECTED)
      c16.push_back("a well-typed program was rejected: " + out.error);
    if (out.verdict == SOLVED)
    {
      for (auto &b : p.asserted)
      {
        std::string why;
        if (!holds_for_all_choices(b, p, out, why))
          c01.push_back("the asserted constraint `" + bprint(b) + "` is false in the reported solution " + (why.empty() ? "" : "(for " + why + ") ") + "[" + show_values(out) + "]");
        else if (b->k == BE::REL && nlin(b->l).c.size() + nlin(b->r).c.size() >= 2) evaluated_mixed = true;
      }
      for (auto &d : p.disjunctions)
      {
        bool some = false;
        for (auto &cs : d.disjuncts)
        {
          bool all = true;
          for (auto &b : cs)
          {
            std::string why;
            if (!holds_for_all_choices(b, p, out, why)) all = false;
          }
          some = some || all;
        }
        if (!some) c01.push_back("no disjunct of a disjunction statement holds in the reported solution [" + show_values(out) + "]");
      }
      for (auto &kv : p.expect_num)
      {
        auto it = out.val.num.find(kv.first);
        if (it == out.val.num.end()) continue;
        if (qx::cmp(it->second, kv.second) != 0)
          c16.push_back("variable " + kv.first + " is pinned to a constant expression denoting " + qx::str(kv.second) + " but the solution reports " + qx::str(it->second));
      }
      for (auto &kv : p.expect_path)
      {
        auto it = out.path_vals.find(kv.first);
        if (it == out.path_vals.end()) { c16.push_back(kv.first + " cannot be read from the solution"); continue; }
        if (qx::cmp(it->second, kv.second) != 0)
          c16.push_back(kv.first + " is determined by constant expressions denoting " + qx::str(kv.second) + " but the solution reports " + qx::str(it->second));
      }
      for (auto &kv : p.expect_bool)
      {
        auto it = out.val.boo.find(kv.first);
        if (it == out.val.boo.end()) continue;
        if (it->second != kv.second)
          c16.push_back("boolean " + kv.first + " is defined by a constant expression that is " + (kv.second == T ? "true" : "false") + " but the solution reports " +
                        (it->second == T ? "true" : it->second == F ? "false" : "undefined"));
      }
      for (auto &m : out.json_mismatch) c01.push_back(m);
      r.counters["json_values_compared"] += out.json_compared;
      check_objects(p, out, c17);
      if (layer == "L3" || layer == "L3d") check_timelines(p, tl, out, c04, c05, c06, c01, r);
      if (g_expect_unsolvable) c04.push_back("a problem in which every alternative overlaps a pinned fact on its state variable was reported solved");
      if (layer == "L1b") check_fields(flds, out, c17, r);
      if (layer == "L1m") check_methods(mths, out, c16, c01, r);
      if (layer == "L2p") check_shared(sh, out, c01, c03, r);
      if (layer == "L3b") check_temporal(tmp, g_plan, c01, c06, r);
    }
    // C02 (c): semantically equivalent formulations get the same verdict
    if (P == "C02" && (layer == "L0" || layer == "L1") && out.verdict != REJECTED && std::hash<std::string>()(text + ctext) % 3 == 0)
    {
      auto hooks_off = [&]() { g_after_solve = nullptr; g_on_solver = nullptr; g_on_solver_gone = nullptr; };
      hooks_off();
      // (i) consistent renaming of every generated identifier (they all end in digits; keywords and built-in names do not)
      static const std::regex idre("\\b(x|k|b|v|c|i|o|f|p_f|A|E|eE)([0-9][0-9_]*)\\b");
      std::string rt = std::regex_replace(text, idre, "$1$2_q"), rc = std::regex_replace(ctext, idre, "$1$2_q");
      // (ii) tautologies
      std::string tt = text + "true;\n" + (p.reals.empty() ? std::string() : p.reals[0] + " <= " + p.reals[0] + " + 1.0;\n") + (p.bools.empty() ? std::string() : p.bools[0] + " -> " + p.bools[0] + ";\n");
      // (iii) the single-line top-level statements of the second batch in reverse order (they are independent constraints)
      std::string oc;
      {
        std::vector<std::string> lines, singles;
        std::istringstream is(ctext);
        std::string ln;
        int depth = 0;
        std::vector<int> single_at;
        while (std::getline(is, ln))
        {
          int d0 = depth;
          for (char ch : ln) depth += ch == '{' ? 1 : ch == '}' ? -1 : 0;
          if (d0 == 0 && depth == 0 && !ln.empty() && ln.back() == ';' && ln.find("// ----") == std::string::npos) { single_at.push_back((int)lines.size()); singles.push_back(ln); }
          lines.push_back(ln);
        }
        std::reverse(singles.begin(), singles.end());
        for (size_t k = 0; k < single_at.size(); ++k) lines[single_at[k]] = singles[k];
        for (auto &l2 : lines) oc += l2 + "\n";
      }
      struct Var { const char *name; std::string a, b; };
      std::vector<Var> vars = {{"identifiers renamed", rt, rc}, {"tautologies added", tt, ctext}};
      if (oc != ctext && !ctext.empty()) vars.push_back({"independent statements reordered", text, oc});
      for (auto &vr : vars)
      {
        Problem dummy; // the variants are judged by their verdict only
        Outcome vo = run(dummy, vr.a, vr.b);
        r.counters["metamorphic_variants"]++;
        if (vo.verdict != out.verdict)
        {
          c02.push_back(std::string("a semantically equivalent formulation (") + vr.name + ") gets the verdict " + (vo.verdict == SOLVED ? "solved" : vo.verdict == UNSOLVABLE ? "unsolvable" : "rejected: " + vo.error) +
                        " while the original gets " + (out.verdict == SOLVED ? "solved" : "unsolvable") + "\n--- variant ---\n" + vr.a + (vr.b.empty() ? "" : "// ---- second read() ----\n" + vr.b));
          r.classes.insert("metamorphic variant checked");
          break;
        }
        r.classes.insert("metamorphic variant checked");
      }
    }
    if (out.verdict == UNSOLVABLE)
    {
      if (p.planted)
        c02.push_back("a problem built around a known solution was declared unsolvable (" + out.error + ")");
      else if (layer == "L0" || layer == "L1" || layer == "eval")
      { // the Z3 translation covers the constraint and object fragment only
        Z z(p);
        if (z.satisfiable() == z3::sat)
          c02.push_back("the problem was declared unsolvable (" + out.error + ") but an independent decision procedure finds a solution");
      }
    }
    if (layer == "L1" || layer == "L1b" || P == "C17") check_domains_after_read(p, out, c17);
    // C17 metamorphic oracle: a satisfiable problem (witness / Z3) that is declared unsolvable, while the same problem with
    // every field access through a multi-valued object variable written out per candidate instance is solved, isolates the
    // field access as the culprit ("field access through such a variable denotes the field of whichever instance is chosen")
    if (P == "C17" && out.verdict == UNSOLVABLE && !c02.empty() && !g_obj.expanded.empty())
    {
      g_after_solve = nullptr; g_on_solver = nullptr; g_on_solver_gone = nullptr;
      std::string vt = ctext;
      for (auto &e : g_obj.expanded)
      {
        auto at = vt.find(e.first);
        if (at != std::string::npos) vt.replace(at, e.first.size(), e.second);
      }
      Problem dummy;
      Outcome vo = run(dummy, text, vt);
      r.counters["field_access_expansions_solved_instead"]++;
      if (vo.verdict == SOLVED)
        c17.push_back("the problem has a solution but is declared unsolvable (" + out.error + "), and the same problem with every field access through an object variable written out per candidate "
                      "instance is solved: the field access does not denote the field of the chosen instance\n--- expanded second read() ---\n" + vt);
    }

    auto own = [&](std::vector<std::string> &v) { for (auto &m : v) { if (!r.violation) { r.violation = true; r.message = m; } log << "!! " << m << "\n"; } };
    auto foreign = [&](std::vector<std::string> &v) { for (auto &m : v) { if (r.foreign.size() < 4) r.foreign.push_back(m); log << "(foreign) " << m << "\n"; } };
    if (P == "C01") own(c01); else foreign(c01);
    if (P == "C02") own(c02); else foreign(c02);
    if (P == "C16") own(c16); else foreign(c16);
    if (P == "C17") own(c17); else foreign(c17);
    if (P == "C04") own(c04); else foreign(c04);
    if (P == "C05") own(c05); else foreign(c05);
    if (P == "C06" || (P == "C01" && layer == "L3")) own(c06); else foreign(c06); // the Interval rule is a rule body of every active atom
    if (P == "C03") own(c03); else foreign(c03);
    if (P == "C19") own(c19); else foreign(c19);
    for (auto &f : p.feats) r.classes.insert(f);
    r.classes.insert(out.verdict == SOLVED ? "verdict: solved" : out.verdict == UNSOLVABLE ? "verdict: unsolvable" : "verdict: rejected");
    r.classes.insert(p.planted ? "planted" : "free");
    if (layer == "L3d" || layer == "L1m") r.nontrivial = true;
    else if ((P == "C01" || P == "C06") && (layer == "L3" || layer == "L2p" || layer == "L3b")) r.nontrivial = out.verdict == SOLVED && r.nontrivial;
    else if (P == "C01") r.nontrivial = out.verdict == SOLVED && (evaluated_mixed || p.feats.count("arithmetic disequality") || p.feats.count("disjunction statement") || !p.objvars.empty());
    else if (P == "C02") r.nontrivial = out.verdict == UNSOLVABLE || p.planted;
    else if (P == "C16" && layer == "L1m") r.nontrivial = out.verdict == SOLVED;
    else if (P == "C16") r.nontrivial = out.verdict == SOLVED && (!p.expect_path.empty() || p.feats.count("product with a non-constant factor") || p.feats.count("unary minus") || p.feats.count("division") || p.feats.count("boolean constant expression"));
    else if (P == "C17" && layer == "L1b") { /* set by check_fields */ }
    else if (P == "C17") r.nontrivial = nontrivial_objects(p, out);
    else if (P == "C18") r.nontrivial = true;
    else if (P == "C03") { /* set by check_rules */ }
#ifdef WITH_EXECUTOR
    else if (P == "C19") r.nontrivial = g_exec_nontrivial;
#endif
    r.render = log.str();
  }

  pbt::Config cfg_for(const pbt::Options &o)
  {
    pbt::Config c;
    c.default_budget_ms = 20000;
    c.crash_is_violation = o.prop == "C18" || o.prop == "C19"; // C19: "a crash is not" an allowed outcome of execution
    // layer L3d builds problems with at most 3 alternatives and 5 atoms: a CPU budget of many seconds exhausted on one of them is a hang
    c.timeout_is_violation = o.prop == "C18" && o.get("layer", "") == "L3d";
    return c;
  }
} // namespace

int main(int argc, char **argv) { return pbt::run(argc, argv, case_prob, cfg_for); }
