// Language harness (parser level): C16 (a) lexer round-trip, (b) grouping, (d) acceptance; C18 (a) arbitrary / near-valid input.
#include "pbt.h"
#include "pbt_fuzz.h"
#include "riddle_lexer.h"
#include "riddle_parser.h"
#include <functional>
#include <memory>
#include <sstream>

using namespace riddle;

namespace
{
  // =====================================================================================================================
  // S-expression building parser (grouping oracle)
  // =====================================================================================================================
  struct sx
  {
    std::string s;
    virtual ~sx() = default;
  };
  std::string sof(const ast::expression *e)
  {
    const sx *x = dynamic_cast<const sx *>(e);
    return x ? x->s : "?";
  }
  std::string ids_s(const std::vector<id_token> &is)
  {
    std::string s;
    for (size_t i = 0; i < is.size(); ++i) s += (i ? "." : "") + is[i].id;
    return s;
  }
  std::string rat_s(const smt::rational &r) { return std::to_string(r.numerator()) + "/" + std::to_string(r.denominator()); }

#define SX_UNARY(cls, base, tag)                                                          \
  struct cls : public ast::base, public sx                                                \
  {                                                                                       \
    cls(const ast::expression *e) : ast::base(e) { s = std::string("(") + tag + " " + sof(e) + ")"; } \
  };
#define SX_BINARY(cls, base, tag)                                                         \
  struct cls : public ast::base, public sx                                                \
  {                                                                                       \
    cls(const ast::expression *l, const ast::expression *r) : ast::base(l, r) { s = std::string("(") + tag + " " + sof(l) + " " + sof(r) + ")"; } \
  };
#define SX_NARY(cls, base, tag)                                                           \
  struct cls : public ast::base, public sx                                                \
  {                                                                                       \
    cls(const std::vector<const ast::expression *> &es) : ast::base(es)                   \
    {                                                                                     \
      s = std::string("(") + tag;                                                         \
      for (auto e : es) s += " " + sof(e);                                                \
      s += ")";                                                                           \
    }                                                                                     \
  };
  SX_UNARY(x_plus, plus_expression, "u+")
  SX_UNARY(x_minus, minus_expression, "u-")
  SX_UNARY(x_not, not_expression, "!")
  SX_BINARY(x_eq, eq_expression, "==")
  SX_BINARY(x_neq, neq_expression, "!=")
  SX_BINARY(x_lt, lt_expression, "<")
  SX_BINARY(x_leq, leq_expression, "<=")
  SX_BINARY(x_geq, geq_expression, ">=")
  SX_BINARY(x_gt, gt_expression, ">")
  SX_BINARY(x_impl, implication_expression, "->")
  SX_NARY(x_disj, disjunction_expression, "|")
  SX_NARY(x_conj, conjunction_expression, "&")
  SX_NARY(x_xor, exct_one_expression, "^")
  SX_NARY(x_add, addition_expression, "+")
  SX_NARY(x_sub, subtraction_expression, "-")
  SX_NARY(x_mul, multiplication_expression, "*")
  SX_NARY(x_div, division_expression, "/")
  struct x_bool : public ast::bool_literal_expression, public sx
  {
    x_bool(const bool_token &l) : ast::bool_literal_expression(l) { s = l.val ? "true" : "false"; }
  };
  struct x_int : public ast::int_literal_expression, public sx
  {
    x_int(const int_token &l) : ast::int_literal_expression(l) { s = "i" + std::to_string(l.val); }
  };
  struct x_real : public ast::real_literal_expression, public sx
  {
    x_real(const real_token &l) : ast::real_literal_expression(l) { s = "r" + rat_s(l.val); }
  };
  struct x_string : public ast::string_literal_expression, public sx
  {
    x_string(const string_token &l) : ast::string_literal_expression(l) { s = "\"" + l.str + "\""; }
  };
  struct x_cast : public ast::cast_expression, public sx
  {
    x_cast(const std::vector<id_token> &tp, const ast::expression *e) : ast::cast_expression(tp, e) { s = "(cast " + ids_s(tp) + " " + sof(e) + ")"; }
  };
  struct x_ctor : public ast::constructor_expression, public sx
  {
    x_ctor(const std::vector<id_token> &it, const std::vector<const ast::expression *> &es) : ast::constructor_expression(it, es)
    {
      s = "(new " + ids_s(it);
      for (auto e : es) s += " " + sof(e);
      s += ")";
    }
  };
  struct x_call : public ast::function_expression, public sx
  {
    x_call(const std::vector<id_token> &is, const id_token &fn, const std::vector<const ast::expression *> &es) : ast::function_expression(is, fn, es)
    {
      s = "(call " + (is.empty() ? std::string() : ids_s(is) + ".") + fn.id;
      for (auto e : es) s += " " + sof(e);
      s += ")";
    }
  };
  struct x_id : public ast::id_expression, public sx
  {
    x_id(const std::vector<id_token> &is) : ast::id_expression(is) { s = ids_s(is); }
  };
  struct x_stmt : public ast::expression_statement, public sx
  {
    x_stmt(const ast::expression *e) : ast::expression_statement(e) { s = sof(e); }
  };

  class sx_parser : public parser
  {
  public:
    sx_parser(std::istream &is) : parser(is) {}
    mutable std::vector<std::string> stmts;

  private:
    ast::expression_statement *new_expression_statement(const ast::expression *const e) const noexcept override
    {
      auto *st = new x_stmt(e);
      stmts.push_back(st->s);
      return st;
    }
    ast::bool_literal_expression *new_bool_literal_expression(const bool_token &l) const noexcept override { return new x_bool(l); }
    ast::int_literal_expression *new_int_literal_expression(const int_token &l) const noexcept override { return new x_int(l); }
    ast::real_literal_expression *new_real_literal_expression(const real_token &l) const noexcept override { return new x_real(l); }
    ast::string_literal_expression *new_string_literal_expression(const string_token &l) const noexcept override { return new x_string(l); }
    ast::cast_expression *new_cast_expression(const std::vector<id_token> &tp, const ast::expression *const e) const noexcept override { return new x_cast(tp, e); }
    ast::plus_expression *new_plus_expression(const ast::expression *const e) const noexcept override { return new x_plus(e); }
    ast::minus_expression *new_minus_expression(const ast::expression *const e) const noexcept override { return new x_minus(e); }
    ast::not_expression *new_not_expression(const ast::expression *const e) const noexcept override { return new x_not(e); }
    ast::constructor_expression *new_constructor_expression(const std::vector<id_token> &it, const std::vector<const ast::expression *> &es) const noexcept override { return new x_ctor(it, es); }
    ast::eq_expression *new_eq_expression(const ast::expression *const l, const ast::expression *const r) const noexcept override { return new x_eq(l, r); }
    ast::neq_expression *new_neq_expression(const ast::expression *const l, const ast::expression *const r) const noexcept override { return new x_neq(l, r); }
    ast::lt_expression *new_lt_expression(const ast::expression *const l, const ast::expression *const r) const noexcept override { return new x_lt(l, r); }
    ast::leq_expression *new_leq_expression(const ast::expression *const l, const ast::expression *const r) const noexcept override { return new x_leq(l, r); }
    ast::geq_expression *new_geq_expression(const ast::expression *const l, const ast::expression *const r) const noexcept override { return new x_geq(l, r); }
    ast::gt_expression *new_gt_expression(const ast::expression *const l, const ast::expression *const r) const noexcept override { return new x_gt(l, r); }
    ast::function_expression *new_function_expression(const std::vector<id_token> &is, const id_token &fn, const std::vector<const ast::expression *> &es) const noexcept override { return new x_call(is, fn, es); }
    ast::id_expression *new_id_expression(const std::vector<id_token> &is) const noexcept override { return new x_id(is); }
    ast::implication_expression *new_implication_expression(const ast::expression *const l, const ast::expression *const r) const noexcept override { return new x_impl(l, r); }
    ast::disjunction_expression *new_disjunction_expression(const std::vector<const ast::expression *> &es) const noexcept override { return new x_disj(es); }
    ast::conjunction_expression *new_conjunction_expression(const std::vector<const ast::expression *> &es) const noexcept override { return new x_conj(es); }
    ast::exct_one_expression *new_exct_one_expression(const std::vector<const ast::expression *> &es) const noexcept override { return new x_xor(es); }
    ast::addition_expression *new_addition_expression(const std::vector<const ast::expression *> &es) const noexcept override { return new x_add(es); }
    ast::subtraction_expression *new_subtraction_expression(const std::vector<const ast::expression *> &es) const noexcept override { return new x_sub(es); }
    ast::multiplication_expression *new_multiplication_expression(const std::vector<const ast::expression *> &es) const noexcept override { return new x_mul(es); }
    ast::division_expression *new_division_expression(const std::vector<const ast::expression *> &es) const noexcept override { return new x_div(es); }
  };

  // =====================================================================================================================
  // (a) lexer round-trip
  // =====================================================================================================================
  struct Tok
  {
    symbol sym;
    std::string text;    // how it is written
    std::string payload; // expected payload (id, string contents, number as text)
  };
  const std::vector<std::pair<symbol, const char *>> FIXED = {
      {BOOL_ID, "bool"}, {INT_ID, "int"}, {REAL_ID, "real"}, {TP_ID, "tp"}, {STRING_ID, "string"}, {TYPEDEF_ID, "typedef"}, {ENUM_ID, "enum"}, {CLASS_ID, "class"},
      {GOAL_ID, "goal"}, {FACT_ID, "fact"}, {PREDICATE_ID, "predicate"}, {NEW_ID, "new"}, {OR_ID, "or"}, {VOID_ID, "void"}, {RETURN_ID, "return"},
      {DOT_ID, "."}, {COMMA_ID, ","}, {COLON_ID, ":"}, {SEMICOLON_ID, ";"}, {LPAREN_ID, "("}, {RPAREN_ID, ")"}, {LBRACKET_ID, "["}, {RBRACKET_ID, "]"},
      {LBRACE_ID, "{"}, {RBRACE_ID, "}"}, {PLUS_ID, "+"}, {MINUS_ID, "-"}, {STAR_ID, "*"}, {SLASH_ID, "/"}, {AMP_ID, "&"}, {BAR_ID, "|"}, {EQ_ID, "="},
      {GT_ID, ">"}, {LT_ID, "<"}, {BANG_ID, "!"}, {EQEQ_ID, "=="}, {LTEQ_ID, "<="}, {GTEQ_ID, ">="}, {BANGEQ_ID, "!="}, {IMPLICATION_ID, "->"}, {CARET_ID, "^"}};
  const char *KW[] = {"bool", "int", "real", "tp", "string", "typedef", "enum", "class", "goal", "fact", "predicate", "new", "or", "this", "void", "return", "true", "false"};

  bool is_kw(const std::string &s)
  {
    for (auto k : KW)
      if (s == k) return true;
    return false;
  }
  std::string gen_ident(pbt::Tape &t, bool &kw_like)
  {
    kw_like = false;
    static const char *first = "abcdefghijklmnopqrstuvwxyzABCDEFGHIJKLMNOPQRSTUVWXYZ_";
    static const char *rest = "abcdefghijklmnopqrstuvwxyzABCDEFGHIJKLMNOPQRSTUVWXYZ_0123456789";
    std::string s;
    unsigned w = t.pick(5);
    if (w == 0)
    { // prefix of a keyword
      std::string k = KW[t.pick(18)];
      s = k.substr(0, 1 + t.pick((uint32_t)k.size() - 1));
      kw_like = true;
    }
    else if (w == 1)
    { // extension of a keyword
      s = std::string(KW[t.pick(18)]) + rest[t.pick(63)];
      kw_like = true;
    }
    else if (w == 2)
    { // keyword with one letter changed
      s = KW[t.pick(18)];
      s[t.pick((uint32_t)s.size())] = first[t.pick(53)];
      kw_like = true;
    }
    else
    {
      s += first[t.pick(53)];
      int n = t.range(0, 6);
      for (int i = 0; i < n; ++i) s += rest[t.pick(63)];
    }
    if (is_kw(s)) s += "_";
    return s;
  }
  Tok gen_tok(pbt::Tape &t, bool &kw_like, bool &is_str)
  {
    kw_like = is_str = false;
    unsigned w = t.pick(10);
    if (w < 4)
    {
      auto &f = FIXED[t.pick((uint32_t)FIXED.size())];
      return {f.first, f.second, ""};
    }
    if (w < 6)
    {
      std::string id = gen_ident(t, kw_like);
      return {ID_ID, id, id};
    }
    if (w == 6) return t.flip() ? Tok{BoolLiteral_ID, "true", "1"} : Tok{BoolLiteral_ID, "false", "0"};
    if (w == 7)
    {
      std::string d;
      int n = t.range(1, 9);
      for (int i = 0; i < n; ++i) d += (char)('0' + t.pick(10));
      return {IntLiteral_ID, d, std::to_string(std::stol(d))};
    }
    if (w == 8)
    {
      std::string a, b;
      int na = t.flip() ? 0 : t.range(1, 5), nb = t.range(1, 5);
      for (int i = 0; i < na; ++i) a += (char)('0' + t.pick(10));
      for (int i = 0; i < nb; ++i) b += (char)('0' + t.pick(10));
      long num = std::stol((a.empty() ? std::string("0") : a) + b), den = 1;
      for (int i = 0; i < nb; ++i) den *= 10;
      smt::rational r(num, den);
      return {RealLiteral_ID, a + "." + b, rat_s(r)};
    }
    // string literal
    is_str = true;
    std::string text = "\"", payload;
    int n = t.range(0, 8);
    static const char *chars = "abcXYZ019 _-+*/(){};:.,<>=!&|^#@'";
    for (int i = 0; i < n; ++i)
    {
      unsigned k = t.pick(12);
      if (k == 0) { text += "\\\""; payload += '"'; }
      else if (k == 1) { text += "\\\\"; payload += '\\'; }
      else if (k == 2) { text += "\\n"; payload += 'n'; } // the lexer takes the character after a backslash literally
      else { char c = chars[t.pick(33)]; text += c; payload += c; }
    }
    text += "\"";
    return {StringLiteral_ID, text, payload};
  }
  bool idc(char c) { return c == '_' || isalnum((unsigned char)c); }
  bool needs_sep(const std::string &a, const std::string &b)
  {
    char x = a.back(), y = b.front();
    if ((idc(x) || x == '.') && (idc(y) || y == '.')) return true; // identifiers, keywords, numbers, dots
    if (y == '=' && (x == '=' || x == '<' || x == '>' || x == '!')) return true;
    if (x == '-' && y == '>') return true;
    if (x == '/' && (y == '/' || y == '*')) return true;
    return false;
  }
  std::string gen_sep(pbt::Tape &t, bool must, bool &comment)
  {
    static const char *ws[] = {" ", "\t", "\n", "\r\n", "  ", " \n\t"};
    unsigned w = t.pick(must ? 8 : 12);
    if (!must && w >= 8) return "";
    if (w < 6) return ws[w];
    comment = true;
    if (w == 6) return " // a comment == with -> tokens \"x\n";
    return " /* block * comment / with \"tokens\" \n second line */";
  }
  void case_lexer(pbt::Tape &t, pbt::Result &r, const pbt::Options &)
  {
    int n = t.range(1, 30);
    std::vector<Tok> toks;
    std::string text;
    bool any_kw_like = false, any_comment = false, any_str = false;
    {
      bool c = false;
      if (t.chance(1, 4)) text += gen_sep(t, true, c);
      any_comment |= c;
    }
    for (int i = 0; i < n; ++i)
    {
      bool k, s;
      Tok tk = gen_tok(t, k, s);
      any_kw_like |= k;
      any_str |= s;
      if (!toks.empty())
      {
        bool c = false;
        text += gen_sep(t, needs_sep(toks.back().text, tk.text), c);
        any_comment |= c;
      }
      toks.push_back(tk);
      text += tk.text;
    }
    {
      bool c = false;
      if (t.chance(1, 4)) text += gen_sep(t, true, c);
      any_comment |= c;
    }
    std::ostringstream log;
    log << "input: " << text << "\n";
    std::stringstream ss(text);
    lexer lex(ss);
    size_t i = 0;
    std::vector<std::unique_ptr<token>> owned;
    try
    {
      while (true)
      {
        token *tk = lex.next();
        owned.emplace_back(tk);
        if (tk->sym == EOF_ID) break;
        if (i >= toks.size())
        {
          r.violation = true;
          r.message = "lexer produced more tokens than were written (extra symbol " + std::to_string(tk->sym) + ")";
          break;
        }
        const Tok &e = toks[i];
        bool ok = tk->sym == e.sym;
        // 'this': the parser never uses THIS_ID; either reading is accepted
        if (e.text == "this" && (tk->sym == THIS_ID || tk->sym == ID_ID)) ok = true;
        std::string pay;
        if (ok)
          switch (tk->sym)
          {
          case ID_ID: pay = static_cast<id_token *>(tk)->id; ok = pay == e.payload; break;
          case BoolLiteral_ID: pay = static_cast<bool_token *>(tk)->val ? "1" : "0"; ok = pay == e.payload; break;
          case IntLiteral_ID: pay = std::to_string(static_cast<int_token *>(tk)->val); ok = pay == e.payload; break;
          case RealLiteral_ID: pay = rat_s(static_cast<real_token *>(tk)->val); ok = pay == e.payload; break;
          case StringLiteral_ID: pay = static_cast<string_token *>(tk)->str; ok = pay == e.payload; break;
          default: break;
          }
        if (!ok)
        {
          r.violation = true;
          r.message = "token " + std::to_string(i) + " written as `" + e.text + "` (symbol " + std::to_string(e.sym) + ", payload `" + e.payload + "`) was read as symbol " +
                      std::to_string(tk->sym) + " payload `" + pay + "`";
          break;
        }
        ++i;
      }
      if (!r.violation && i != toks.size())
      {
        r.violation = true;
        r.message = "lexer stopped after " + std::to_string(i) + " of " + std::to_string(toks.size()) + " tokens";
      }
    }
    catch (const std::exception &e)
    {
      r.violation = true;
      r.message = std::string("lexer rejected a valid token sequence: ") + e.what();
    }
    if (r.violation) log << "!! " << r.message << "\n";
    if (any_kw_like) r.classes.insert("keyword-like identifier");
    if (any_comment) r.classes.insert("comment separator");
    if (any_str) r.classes.insert("string literal");
    r.nontrivial = any_kw_like || any_comment;
    r.render = log.str();
  }

  // =====================================================================================================================
  // (b) grouping
  // =====================================================================================================================
  struct Node
  {
    std::string op; // "lit", "id", "u+", "u-", "!", "==", "!=", "<", "<=", ">=", ">", "->", "|", "&", "^", "+", "-", "*", "/", "cast", "new", "call"
    std::string text;                     // for leaves: source text; for cast/new/call: type or function name
    std::string sexp;                     // for leaves: expected s-expression
    std::vector<std::shared_ptr<Node>> k; // children
  };
  using NP = std::shared_ptr<Node>;
  int level(const std::string &op)
  {
    if (op == "==" || op == "!=") return 0;
    if (op == "<" || op == "<=" || op == ">=" || op == ">" || op == "->" || op == "|" || op == "&" || op == "^") return 1;
    if (op == "+" || op == "-") return 2;
    if (op == "*" || op == "/") return 3;
    if (op == "u+" || op == "u-" || op == "!") return 4;
    if (op == "cast") return -1; // a cast swallows everything to its right: always parenthesised as an operand
    return 5;                    // primary
  }
  bool nary(const std::string &op) { return op == "|" || op == "&" || op == "^" || op == "+" || op == "-" || op == "*" || op == "/"; }

  NP gen_expr(pbt::Tape &t, int depth, const pbt::Options &o)
  {
    auto n = std::make_shared<Node>();
    unsigned w = depth <= 0 ? t.pick(4) : t.pick(24);
    static const char *ids[] = {"x", "y", "z", "a.b", "obj.f.g", "tau", "start"};
    if (w < 2)
    {
      n->op = "id";
      n->text = ids[t.pick(7)];
      n->sexp = n->text;
    }
    else if (w < 4)
    {
      n->op = "lit";
      switch (t.pick(4))
      {
      case 0: { int v = t.range(0, 99); n->text = std::to_string(v); n->sexp = "i" + std::to_string(v); break; }
      case 1: { int a = t.range(0, 20), b = t.range(0, 9); n->text = std::to_string(a) + "." + std::to_string(b); n->sexp = "r" + rat_s(smt::rational(a * 10 + b, 10)); break; }
      case 2: { bool v = t.flip(); n->text = v ? "true" : "false"; n->sexp = n->text; break; }
      default: n->text = "\"s\""; n->sexp = "\"s\""; break;
      }
    }
    else if (w < 7)
    {
      static const char *u[] = {"u+", "u-", "!"};
      n->op = u[t.pick(3)];
      n->k.push_back(gen_expr(t, depth - 1, o));
    }
    else if (w < 21)
    {
      static const char *b[] = {"==", "!=", "<", "<=", ">=", ">", "->", "|", "&", "^", "+", "-", "*", "/"};
      n->op = b[t.pick(14)];
      n->k.push_back(gen_expr(t, depth - 1, o));
      n->k.push_back(gen_expr(t, depth - 1, o));
      if (nary(n->op) && t.chance(1, 3)) n->k.push_back(gen_expr(t, depth - 1, o));
    }
    else if (w == 21 && !o.has("no_cast"))
    {
      n->op = "cast";
      n->text = t.flip() ? "T" : "A.B";
      n->k.push_back(gen_expr(t, depth - 1, o));
    }
    else if (w == 22)
    {
      n->op = "new";
      n->text = t.flip() ? "T" : "A.B";
      int c = t.range(0, 2);
      for (int i = 0; i < c; ++i) n->k.push_back(gen_expr(t, depth - 1, o));
    }
    else if (!o.has("no_call"))
    {
      n->op = "call";
      n->text = t.flip() ? "f" : "obj.m";
      int c = t.range(0, 2);
      for (int i = 0; i < c; ++i) n->k.push_back(gen_expr(t, depth - 1, o));
    }
    else
    {
      n->op = "id";
      n->text = "x";
      n->sexp = "x";
    }
    return n;
  }
  // expected s-expression: the tree as generated, with left-nested chains of the same n-ary operator flattened
  std::string expect(const NP &n)
  {
    if (n->op == "id" || n->op == "lit") return n->sexp;
    if (n->op == "cast") return "(cast " + n->text + " " + expect(n->k[0]) + ")";
    if (n->op == "new" || n->op == "call")
    {
      std::string s = "(" + n->op + " " + n->text;
      for (auto &c : n->k) s += " " + expect(c);
      return s + ")";
    }
    if (nary(n->op))
    {
      std::vector<NP> flat;
      std::function<void(const NP &, bool)> fl = [&](const NP &m, bool first) {
        if (first && m->op == n->op && !m->text.size())
        {
          for (size_t i = 0; i < m->k.size(); ++i) fl(m->k[i], i == 0);
        }
        else
          flat.push_back(m);
      };
      for (size_t i = 0; i < n->k.size(); ++i) fl(n->k[i], i == 0);
      std::string s = "(" + n->op;
      for (auto &c : flat) s += " " + expect(c);
      return s + ")";
    }
    std::string s = "(" + n->op;
    for (auto &c : n->k) s += " " + expect(c);
    return s + ")";
  }
  // n->text of an operator node is "P" when it was printed inside redundant parentheses (then it is not flattened into its parent)
  std::string print(pbt::Tape &t, const NP &n, bool &redundant, int &maxdepth, int depth)
  {
    maxdepth = std::max(maxdepth, depth);
    auto wrap = [&](const NP &c, bool need) -> std::string {
      std::string s = print(t, c, redundant, maxdepth, depth + 1);
      bool bare_id = c->op == "id";
      bool extra = !need && !bare_id && t.rare(1, 6); // never parenthesise a bare (dotted) identifier: `(x) - y` is a cast
      if (extra)
      {
        redundant = true;
        if (level(c->op) < 4 && level(c->op) >= 0) c->text = "P";
      }
      return (need || extra) ? "(" + s + ")" : s;
    };
    if (n->op == "id" || n->op == "lit") return n->text;
    if (n->op == "cast") return "(" + n->text + ") " + print(t, n->k[0], redundant, maxdepth, depth + 1);
    if (n->op == "new" || n->op == "call")
    {
      std::string s = (n->op == "new" ? "new " : "") + n->text + "(";
      for (size_t i = 0; i < n->k.size(); ++i) s += (i ? ", " : "") + print(t, n->k[i], redundant, maxdepth, depth + 1);
      return s + ")";
    }
    int L = level(n->op);
    if (L == 4)
    {
      const NP &c = n->k[0];
      bool need = level(c->op) < 4;
      std::string sym = n->op == "u+" ? "+" : n->op == "u-" ? "-" : "!";
      return sym + (t.flip() ? " " : "") + wrap(c, need);
    }
    std::string s;
    for (size_t i = 0; i < n->k.size(); ++i)
    {
      const NP &c = n->k[i];
      int cl = level(c->op);
      bool need = i == 0 ? cl < L : cl <= L;
      if (cl == -1) need = true;
      if (i) s += " " + n->op + " ";
      s += wrap(c, need);
    }
    return s;
  }
  void case_group(pbt::Tape &t, pbt::Result &r, const pbt::Options &o)
  {
    int ns = t.range(1, 3);
    std::ostringstream log;
    std::string text;
    std::vector<std::string> exp;
    bool redundant = false;
    int maxdepth = 0;
    std::set<int> levels;
    for (int i = 0; i < ns; ++i)
    {
      NP e = gen_expr(t, t.range(1, 4), o);
      std::string src = print(t, e, redundant, maxdepth, 0);
      // a statement may not start with every token at top level; wrap in a rule body-like block
      text += src + ";\n";
      exp.push_back(expect(e));
      std::function<void(const NP &)> lv = [&](const NP &m) {
        if (level(m->op) >= 0 && level(m->op) <= 4) levels.insert(level(m->op));
        for (auto &c : m->k) lv(c);
      };
      lv(e);
    }
    std::string prog = "predicate P() {\n" + text + "}\n";
    log << prog;
    // the statements of a predicate body are not reachable through the compilation unit: capture through the factory
    std::stringstream ss(prog);
    sx_parser p(ss);
    try
    {
      std::unique_ptr<ast::compilation_unit> cu(p.parse());
      if (p.stmts.size() != exp.size())
      {
        r.violation = true;
        r.message = "parsed " + std::to_string(p.stmts.size()) + " expression statements, wrote " + std::to_string(exp.size());
      }
      for (size_t i = 0; i < exp.size() && !r.violation; ++i)
        if (p.stmts[i] != exp[i])
        {
          r.violation = true;
          r.message = "statement " + std::to_string(i) + " groups as " + p.stmts[i] + " but the documented precedence/associativity gives " + exp[i];
        }
    }
    catch (const std::exception &e)
    {
      r.violation = true;
      r.message = std::string("a syntactically valid expression was rejected: ") + e.what();
    }
    if (r.violation) log << "!! " << r.message << "\n";
    if (redundant) r.classes.insert("redundant parentheses");
    r.classes.insert("precedence levels: " + std::to_string(levels.size()));
    r.nontrivial = maxdepth >= 2 && levels.size() >= 2;
    r.render = log.str();
  }

  pbt::Config cfg_for(const pbt::Options &o)
  {
    pbt::Config c;
    c.default_budget_ms = 10000;
    c.crash_is_violation = true;   // the lexer / parser must never abort, whatever the property
    c.timeout_is_violation = true; // linear-time code: a budget hit here is non-termination
    return c;
  }
  void case_accept(pbt::Tape &t, pbt::Result &r, const pbt::Options &o);
  void case_bytes(pbt::Tape &t, pbt::Result &r, const pbt::Options &o);

  void dispatch(pbt::Tape &t, pbt::Result &r, const pbt::Options &o)
  {
    if (o.sub == "lexer") case_lexer(t, r, o);
    else if (o.sub == "group") case_group(t, r, o);
    else if (o.sub == "accept") case_accept(t, r, o);
    else case_bytes(t, r, o);
  }

#include "h_lang_grammar.inc" // NOLINT
} // namespace

PBT_MAIN(dispatch, cfg_for)
