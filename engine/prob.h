// Typed RIDDLE problem model: generator-side AST with printer, exact evaluator and Z3 encoding.
#pragma once
#include "pbt.h"
#include "qx.h"
#include <functional>
#include <memory>
#include <sstream>

namespace prob
{
  using qx::E;
  using qx::Q;

  // three-valued booleans
  enum TV { F = 0, T = 1, U = 2 };
  inline TV tnot(TV a) { return a == U ? U : (a == T ? F : T); }
  inline TV tand(TV a, TV b) { return (a == F || b == F) ? F : ((a == T && b == T) ? T : U); }
  inline TV tor(TV a, TV b) { return (a == T || b == T) ? T : ((a == F && b == F) ? F : U); }

  // what the solver reported
  struct Valuation
  {
    std::map<std::string, E> num;                     // numeric variables / fields by path
    std::map<std::string, TV> boo;                    // boolean variables by path
    std::map<std::string, std::set<std::string>> obj; // object variable -> names of the instances still allowed
    std::map<std::string, std::string> strs;
  };

  // ---- numeric expressions (linear by construction) ------------------------------------------------------------------
  struct NE;
  using NEP = std::shared_ptr<NE>;
  struct NE
  {
    enum K { CONST, VAR, ADD, SUB, MUL, DIV, NEG, POS, FIELD } k = CONST;
    mpq_class c = 0;         // CONST
    bool as_int = false;     // CONST printed as an integer literal
    std::string name;        // VAR: path (x, i0.f); FIELD: object variable + "." + field chain, resolved through the chosen instance
    std::string objvar, fld; // FIELD
    std::vector<NEP> kids;
  };
  inline NEP nconst(const mpq_class &c, bool as_int = false)
  {
    auto n = std::make_shared<NE>();
    n->k = NE::CONST;
    n->c = c;
    n->as_int = as_int;
    return n;
  }
  inline NEP nvar(const std::string &name)
  {
    auto n = std::make_shared<NE>();
    n->k = NE::VAR;
    n->name = name;
    return n;
  }
  inline NEP nfield(const std::string &objvar, const std::string &fld)
  {
    auto n = std::make_shared<NE>();
    n->k = NE::FIELD;
    n->objvar = objvar;
    n->fld = fld;
    n->name = objvar + "." + fld;
    return n;
  }
  inline NEP nop(NE::K k, std::vector<NEP> kids)
  {
    auto n = std::make_shared<NE>();
    n->k = k;
    n->kids = std::move(kids);
    return n;
  }
  inline std::string dec(const mpq_class &q, bool as_int)
  { // finite decimal expansion (constants are generated as k / 2^a 5^b)
    mpq_class a = abs(q);
    std::string s;
    if (as_int && a.get_den() == 1)
      s = a.get_num().get_str();
    else
    {
      mpz_class ip = a.get_num() / a.get_den();
      mpq_class fr = a - ip;
      s = ip.get_str() + ".";
      int digits = 0;
      do
      {
        fr *= 10;
        mpz_class d = fr.get_num() / fr.get_den();
        s += d.get_str();
        fr -= d;
        ++digits;
      } while (sgn(fr) != 0 && digits < 12);
    }
    return s;
  }
  inline int nlevel(const NE &n)
  {
    switch (n.k)
    {
    case NE::ADD:
    case NE::SUB: return 2;
    case NE::MUL:
    case NE::DIV: return 3;
    case NE::NEG:
    case NE::POS: return 4;
    case NE::CONST: return sgn(n.c) < 0 ? 4 : 5; // a negative constant is printed as unary minus on a literal
    default: return 5;
    }
  }
  inline std::string nprint(const NEP &n)
  {
    auto wrap = [&](const NEP &c, bool need) { std::string s = nprint(c); return need ? "(" + s + ")" : s; };
    switch (n->k)
    {
    case NE::CONST: return (sgn(n->c) < 0 ? "-" : "") + dec(n->c, n->as_int);
    case NE::VAR:
    case NE::FIELD: return n->name;
    case NE::NEG: return "-" + wrap(n->kids[0], nlevel(*n->kids[0]) < 4 || (n->kids[0]->k == NE::CONST && sgn(n->kids[0]->c) < 0) || n->kids[0]->k == NE::NEG);
    case NE::POS: return "+" + wrap(n->kids[0], nlevel(*n->kids[0]) < 4 || n->kids[0]->k == NE::POS);
    default:
    {
      int L = nlevel(*n);
      const char *op = n->k == NE::ADD ? " + " : n->k == NE::SUB ? " - " : n->k == NE::MUL ? " * " : " / ";
      std::string s;
      for (size_t i = 0; i < n->kids.size(); ++i)
      {
        int cl = nlevel(*n->kids[i]);
        bool need = i == 0 ? cl < L : cl <= L;
        // a leading unary minus inside a sum/product does not need parentheses for the parser, but `a - -b` reads badly and `(x) - y` must never be produced; unary operands are wrapped when not first
        if (i > 0 && cl == 4) need = true;
        if (i) s += op;
        s += wrap(n->kids[i], need);
      }
      return s;
    }
    }
  }
  // exact value under a valuation (nullopt if a needed value is missing)
  using FieldLookup = std::function<std::optional<E>(const std::string &objvar, const std::string &fld, const std::string &instance)>;
  inline std::optional<E> neval(const NEP &n, const Valuation &v, const std::map<std::string, std::string> &chosen, const std::map<std::string, E> &inst_fields)
  {
    switch (n->k)
    {
    case NE::CONST: return E(Q(n->c));
    case NE::VAR:
    {
      auto it = v.num.find(n->name);
      if (it == v.num.end()) return std::nullopt;
      return it->second;
    }
    case NE::FIELD:
    {
      auto c = chosen.find(n->objvar);
      if (c == chosen.end()) return std::nullopt;
      auto it = inst_fields.find(c->second + "." + n->fld);
      if (it == inst_fields.end()) return std::nullopt;
      return it->second;
    }
    case NE::NEG:
    {
      auto a = neval(n->kids[0], v, chosen, inst_fields);
      if (!a) return std::nullopt;
      return qx::eneg(*a);
    }
    case NE::POS: return neval(n->kids[0], v, chosen, inst_fields);
    case NE::ADD:
    case NE::SUB:
    {
      std::optional<E> acc;
      for (size_t i = 0; i < n->kids.size(); ++i)
      {
        auto a = neval(n->kids[i], v, chosen, inst_fields);
        if (!a) return std::nullopt;
        if (i == 0) acc = *a;
        else acc = n->k == NE::ADD ? qx::eadd(*acc, *a) : qx::esub(*acc, *a);
      }
      return acc;
    }
    case NE::MUL:
    {
      // linear by construction: at most one non-constant factor
      std::optional<E> acc;
      for (size_t i = 0; i < n->kids.size(); ++i)
      {
        auto a = neval(n->kids[i], v, chosen, inst_fields);
        if (!a) return std::nullopt;
        if (i == 0) { acc = *a; continue; }
        // one of acc / a is a pure rational constant
        if (sgn(a->e.v) == 0) acc = qx::escale(*acc, a->r);
        else if (sgn(acc->e.v) == 0) acc = qx::escale(*a, acc->r);
        else return std::nullopt;
      }
      return acc;
    }
    case NE::DIV:
    {
      std::optional<E> acc;
      for (size_t i = 0; i < n->kids.size(); ++i)
      {
        auto a = neval(n->kids[i], v, chosen, inst_fields);
        if (!a) return std::nullopt;
        if (i == 0) { acc = *a; continue; }
        if (sgn(a->r.v) == 0) return std::nullopt;
        acc = qx::escale(*acc, Q(mpq_class(1 / a->r.v)));
      }
      return acc;
    }
    }
    return std::nullopt;
  }
  // symbolic linear form over variable names (FIELD nodes use "objvar.fld" names; the Z3 side resolves them)
  struct LF
  {
    std::map<std::string, mpq_class> c;
    mpq_class k = 0;
  };
  inline LF nlin(const NEP &n)
  {
    LF r;
    switch (n->k)
    {
    case NE::CONST: r.k = n->c; return r;
    case NE::VAR:
    case NE::FIELD: r.c[n->name] = 1; return r;
    case NE::NEG:
    {
      LF a = nlin(n->kids[0]);
      for (auto &t : a.c) r.c[t.first] = -t.second;
      r.k = -a.k;
      return r;
    }
    case NE::POS: return nlin(n->kids[0]);
    case NE::ADD:
    case NE::SUB:
      for (size_t i = 0; i < n->kids.size(); ++i)
      {
        LF a = nlin(n->kids[i]);
        int s = (i == 0 || n->k == NE::ADD) ? 1 : -1;
        for (auto &t : a.c) r.c[t.first] += s * t.second;
        r.k += s * a.k;
      }
      return r;
    case NE::MUL:
    {
      r.k = 1;
      bool first = true;
      for (auto &kid : n->kids)
      {
        LF a = nlin(kid);
        if (first) { r = a; first = false; continue; }
        if (a.c.empty())
        {
          for (auto &t : r.c) t.second *= a.k;
          r.k *= a.k;
        }
        else
        { // r must be constant
          mpq_class s = r.k;
          r = a;
          for (auto &t : r.c) t.second *= s;
          r.k *= s;
        }
      }
      return r;
    }
    case NE::DIV:
    {
      r = nlin(n->kids[0]);
      for (size_t i = 1; i < n->kids.size(); ++i)
      {
        LF a = nlin(n->kids[i]);
        for (auto &t : r.c) t.second /= a.k;
        r.k /= a.k;
      }
      return r;
    }
    }
    return r;
  }
  inline bool nis_const(const NEP &n) { return nlin(n).c.empty(); }

  // ---- boolean expressions --------------------------------------------------------------------------------------------
  struct BE;
  using BEP = std::shared_ptr<BE>;
  struct BE
  {
    enum K { CONST, VAR, REL, NOT, AND, OR, IMPL, XOR, EQB, NEQB, OBJEQ, OBJNEQ } k = CONST;
    bool c = true;
    std::string name;  // VAR; OBJEQ/OBJNEQ: left object name
    std::string name2; // OBJEQ/OBJNEQ: right object name (variable or instance)
    int rel = 0;       // REL: 0 <, 1 <=, 2 ==, 3 >=, 4 >, 5 !=
    NEP l, r;
    std::vector<BEP> kids;
  };
  inline BEP bconst(bool c)
  {
    auto b = std::make_shared<BE>();
    b->k = BE::CONST;
    b->c = c;
    return b;
  }
  inline BEP bvar(const std::string &n)
  {
    auto b = std::make_shared<BE>();
    b->k = BE::VAR;
    b->name = n;
    return b;
  }
  inline BEP brel(int rel, NEP l, NEP r)
  {
    auto b = std::make_shared<BE>();
    b->k = BE::REL;
    b->rel = rel;
    b->l = l;
    b->r = r;
    return b;
  }
  inline BEP bop(BE::K k, std::vector<BEP> kids)
  {
    auto b = std::make_shared<BE>();
    b->k = k;
    b->kids = std::move(kids);
    return b;
  }
  inline BEP bobj(bool eq, const std::string &a, const std::string &b2)
  {
    auto b = std::make_shared<BE>();
    b->k = eq ? BE::OBJEQ : BE::OBJNEQ;
    b->name = a;
    b->name2 = b2;
    return b;
  }
  inline const char *relname(int r)
  {
    static const char *n[] = {"<", "<=", "==", ">=", ">", "!="};
    return n[r];
  }
  inline std::string bprint(const BEP &b)
  {
    auto atom = [](const BEP &x) { return x->k == BE::CONST || x->k == BE::VAR; };
    auto wrap = [&](const BEP &x) { return atom(x) ? bprint(x) : "(" + bprint(x) + ")"; };
    switch (b->k)
    {
    case BE::CONST: return b->c ? "true" : "false";
    case BE::VAR: return b->name;
    case BE::REL: return nprint(b->l) + " " + relname(b->rel) + " " + nprint(b->r);
    case BE::NOT: return "!" + wrap(b->kids[0]);
    case BE::AND:
    case BE::OR:
    case BE::XOR:
    {
      const char *op = b->k == BE::AND ? " & " : b->k == BE::OR ? " | " : " ^ ";
      std::string s;
      for (size_t i = 0; i < b->kids.size(); ++i) s += (i ? op : "") + wrap(b->kids[i]);
      return s;
    }
    case BE::IMPL: return wrap(b->kids[0]) + " -> " + wrap(b->kids[1]);
    case BE::EQB: return wrap(b->kids[0]) + " == " + wrap(b->kids[1]);
    case BE::NEQB: return wrap(b->kids[0]) + " != " + wrap(b->kids[1]);
    case BE::OBJEQ: return b->name + " == " + b->name2;
    case BE::OBJNEQ: return b->name + " != " + b->name2;
    }
    return "true";
  }
  struct EvalCtx
  {
    const Valuation &v;
    std::map<std::string, std::string> chosen; // object variable -> instance (when evaluating under one choice)
    std::map<std::string, E> inst_fields;      // "instance.field" -> value
    std::set<std::string> instances;           // names that denote instances (not variables)
  };
  inline TV beval(const BEP &b, const EvalCtx &c)
  {
    switch (b->k)
    {
    case BE::CONST: return b->c ? T : F;
    case BE::VAR:
    {
      auto it = c.v.boo.find(b->name);
      return it == c.v.boo.end() ? U : it->second;
    }
    case BE::REL:
    {
      auto l = neval(b->l, c.v, c.chosen, c.inst_fields), r = neval(b->r, c.v, c.chosen, c.inst_fields);
      if (!l || !r) return U;
      int cm = qx::cmp(*l, *r);
      bool h = b->rel == 0 ? cm < 0 : b->rel == 1 ? cm <= 0 : b->rel == 2 ? cm == 0 : b->rel == 3 ? cm >= 0 : b->rel == 4 ? cm > 0 : cm != 0;
      return h ? T : F;
    }
    case BE::NOT: return tnot(beval(b->kids[0], c));
    case BE::AND:
    {
      TV r = T;
      for (auto &k : b->kids) r = tand(r, beval(k, c));
      return r;
    }
    case BE::OR:
    {
      TV r = F;
      for (auto &k : b->kids) r = tor(r, beval(k, c));
      return r;
    }
    case BE::XOR:
    { // exactly one
      int t = 0, u = 0;
      for (auto &k : b->kids)
      {
        TV x = beval(k, c);
        t += x == T;
        u += x == U;
      }
      if (u == 0) return t == 1 ? T : F;
      if (t >= 2) return F;
      return U;
    }
    case BE::IMPL: return tor(tnot(beval(b->kids[0], c)), beval(b->kids[1], c));
    case BE::EQB:
    case BE::NEQB:
    {
      TV x = beval(b->kids[0], c), y = beval(b->kids[1], c);
      if (x == U || y == U) return U;
      return ((x == y) == (b->k == BE::EQB)) ? T : F;
    }
    case BE::OBJEQ:
    case BE::OBJNEQ:
    {
      auto res = [&](const std::string &n) -> std::string {
        if (c.instances.count(n)) return n;
        auto it = c.chosen.find(n);
        return it == c.chosen.end() ? "" : it->second;
      };
      std::string x = res(b->name), y = res(b->name2);
      if (x.empty() || y.empty()) return U;
      return ((x == y) == (b->k == BE::OBJEQ)) ? T : F;
    }
    }
    return U;
  }
  // object variables an expression depends on
  inline void nobjs(const NEP &n, std::set<std::string> &out)
  {
    if (n->k == NE::FIELD) out.insert(n->objvar);
    for (auto &k : n->kids) nobjs(k, out);
  }
  inline void bobjs(const BEP &b, const std::set<std::string> &instances, std::set<std::string> &out)
  {
    if (b->k == BE::REL) { nobjs(b->l, out); nobjs(b->r, out); }
    if (b->k == BE::OBJEQ || b->k == BE::OBJNEQ)
    {
      if (!instances.count(b->name)) out.insert(b->name);
      if (!instances.count(b->name2)) out.insert(b->name2);
    }
    for (auto &k : b->kids) bobjs(k, instances, out);
  }
} // namespace prob
