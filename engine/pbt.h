// Shared property-based-testing plumbing: tapes, case results, the driver entry point.
// The driver (pbt_main.cpp) generates and shrinks tapes with rapidcheck, runs every case in a forked
// child, aggregates counters and writes shard statistics + replay files.
#pragma once
#include <cstdint>
#include <map>
#include <set>
#include <string>
#include <vector>

namespace pbt
{
  // A tape is the only source of choice in a case. Any tape decodes to a valid case; an exhausted tape
  // yields 0 (the simplest choice), so shorter / smaller tapes are simpler cases.
  class Tape
  {
  public:
    explicit Tape(const std::vector<uint16_t> &c) : cells(c) {}
    uint32_t raw()
    {
      if (pos < cells.size())
        return cells[pos++];
      ++overrun;
      return 0;
    }
    // uniform-ish in [0,n)
    uint32_t pick(uint32_t n) { return n <= 1 ? (raw(), 0) : raw() % n; }
    // in [lo,hi]
    int range(int lo, int hi) { return lo + (int)pick((uint32_t)(hi - lo + 1)); }
    bool flip() { return pick(2) == 1; }
    // true with probability ~ num/den
    bool chance(uint32_t num, uint32_t den) { return pick(den) < num; }
    // like chance(), but false on an exhausted tape (use for choices that make a case bigger)
    bool rare(uint32_t num, uint32_t den) { return pick(den) >= den - num; }
    bool exhausted() const { return pos >= cells.size(); }
    size_t consumed() const { return pos; }
    size_t size() const { return cells.size(); }

  private:
    const std::vector<uint16_t> &cells;
    size_t pos = 0;
    size_t overrun = 0;
  };

  struct Result
  {
    bool violation = false;
    std::string message;        // what failed (oracle clause)
    bool discard = false;       // case outside the property's domain (counted, never reported)
    std::string discard_reason;
    bool nontrivial = false;    // by the property's stated rule
    std::set<std::string> classes; // class labels for the histogram
    std::string render;         // the case written out
    std::string key;            // what distinctness is measured on (default: render)
    std::vector<std::string> foreign; // failures of oracles that belong to another property (logged only)
    std::map<std::string, long> counters; // extra measured counters, summed over cases
  };

  struct Options
  {
    std::string prop;               // property id, e.g. C15
    std::string sub;                // optional sub-check selector
    std::set<std::string> excl;     // exclusion predicates switched on (known findings)
    std::map<std::string, std::string> kv; // anything else (--opt k=v)
    bool has(const std::string &e) const { return excl.count(e) != 0; }
    std::string get(const std::string &k, const std::string &d = "") const
    {
      auto it = kv.find(k);
      return it == kv.end() ? d : it->second;
    }
  };

  using CaseFn = void (*)(Tape &, Result &, const Options &);

  struct Config
  {
    bool crash_is_violation = false; // C18-style: abnormal termination of the child is the property
    bool timeout_is_violation = false;
    int default_budget_ms = 10000;
  };

  // argv: --prop P [--sub S] --seed N --cases M --max-size S --out FILE --replay-dir DIR [--budget-ms B]
  //       [--excl a,b] [--opt k=v] [--crash-violation] | --replay FILE
  int run(int argc, char **argv, CaseFn fn, Config (*cfg_for)(const Options &));
} // namespace pbt
