// Network harness: C07 C08 C09 C10 C11 C12 C13 C14 and C18(c).
#include "net.h"
#include "dlref.h"
#include <algorithm>
#include <atomic>
#include <thread>

using namespace net;

// ---- C20: parallel pivoting (PARALLELIZE builds; hook H4) -----------------------------------------------------------------
namespace par
{
  std::atomic<uint64_t> sched_state{0};
  std::atomic<long> task_starts{0}, task_ends{0}, perturbations{0};
  uint64_t sched_seed = 0;
  bool perturb = false;
  std::vector<std::string> failures; // filled from the thread that calls pivot (after join)
  long pivots = 0, pivots_multi = 0, max_tasks = 0;

  void on_sched(void *, int point)
  {
    if (point == 0) task_starts.fetch_add(1);
    if (point == 2) task_ends.fetch_add(1);
    if (!perturb) return;
    uint64_t x = sched_state.fetch_add(0x9E3779B97F4A7C15ull) ^ sched_seed;
    x ^= x >> 31; x *= 0xBF58476D1CE4E5B9ull; x ^= x >> 29;
    unsigned r = (unsigned)(x % 8);
    if (r == 0) { std::this_thread::yield(); perturbations.fetch_add(1); }
    else if (r == 1) { for (volatile int i = 0; i < 2000; ++i) {} perturbations.fetch_add(1); }
    else if (r == 2) { std::this_thread::sleep_for(std::chrono::microseconds(50)); perturbations.fetch_add(1); }
  }
#ifdef PARALLELIZE
  qx::L toL(const smt::lin &l) { return net::Net::fromLin(l); }
  void on_pivot(void *, const void *pi)
  {
    const auto &info = *static_cast<const smt::lra_theory::verif_pivot_info *>(pi);
    ++pivots;
    if (info.before.size() >= 2) ++pivots_multi;
    max_tasks = std::max<long>(max_tasks, (long)info.before.size());
    // join() returned: every task that started must have ended
    long st = task_starts.exchange(0), en = task_ends.exchange(0);
    if (st != en || st != (long)info.before.size())
      failures.push_back("after join(): " + std::to_string(st) + " row-update tasks started, " + std::to_string(en) + " ended, " + std::to_string(info.before.size()) + " rows contain the entering variable");
    qx::L expr = toL(info.expr);
    std::map<smt::var, std::set<smt::var>> watched_by; // row (basic variable) -> variables whose watch list contains it
    for (auto &w : info.watching)
      for (auto r : w.second) watched_by[r].insert(w.first);
    for (size_t i = 0; i < info.before.size(); ++i)
    {
      qx::L b = toL(info.before[i].second);
      mpq_class cc = b.c.count(info.x_j) ? b.c[info.x_j] : mpq_class(0);
      b.c.erase(info.x_j);
      qx::L exp = qx::ladd(b, qx::lscale(expr, cc)); // the sequential update: substitute the entering variable by its expression
      const smt::lin *after = nullptr;
      for (auto &a : info.after)
        if (a.first == info.before[i].first) after = &a.second;
      if (!after) { failures.push_back("a row disappeared during a pivot"); continue; }
      for (auto &t : after->vars)
        if (t.second == smt::rational::ZERO) failures.push_back("a row stores a zero coefficient after a pivot");
      if (!qx::leq(toL(*after), exp))
        failures.push_back("row of x" + std::to_string(info.before[i].first) + " after the parallel pivot on x" + std::to_string(info.x_j) + " is " + qx::str(toL(*after)) +
                           " but the sequential update gives " + qx::str(exp));
      std::set<smt::var> expvars;
      for (auto &t : exp.c) expvars.insert(t.first);
      if (watched_by[info.before[i].first] != expvars)
        failures.push_back("watch lists after the parallel pivot do not match the variables of row x" + std::to_string(info.before[i].first));
    }
  }
#endif
} // namespace par

namespace
{
  struct Gen
  {
    pbt::Tape &t;
    Net &n;
    const pbt::Options &o;
    std::vector<size_t> lra_vars, idl_pts{0}, rdl_pts{0}, ov_vars;
    std::vector<lit> amo_lits; // results of at-most-one / exactly-one (never used as arguments)
    std::vector<lit> lra_lits, dl_lits; // theory literals handed out (for biased assumption picking)
    std::vector<lit> clause_pool;

    mpq_class coef()
    {
      static const long num[] = {1, -1, 2, -2, 1, -1, 3, -3, 1, -1};
      static const long den[] = {1, 1, 1, 1, 2, 2, 1, 1, 3, 3};
      unsigned i = t.pick(10);
      return mpq_class(num[i], den[i]);
    }
    mpq_class konst()
    {
      switch (t.pick(4))
      {
      case 0: return mpq_class(0);
      case 1: return mpq_class(t.range(-3, 3));
      case 2: return mpq_class(t.range(-20, 20));
      default: return mpq_class(t.range(-9, 9), 2);
      }
    }
    L lra_expr()
    {
      L l;
      if (lra_vars.empty()) { l.k = konst(); return l; }
      switch (t.pick(6))
      {
      case 0: l.k = konst(); break;
      case 1: l.c[lra_vars[t.pick(lra_vars.size())]] = 1; break;
      case 2: l.c[lra_vars[t.pick(lra_vars.size())]] = coef(); l.k = konst(); break;
      default:
      {
        int k = t.range(2, 4);
        for (int i = 0; i < k; ++i) l.c[lra_vars[t.pick(lra_vars.size())]] += coef(); // repeated variables merge / cancel
        if (t.flip()) l.k = konst();
      }
      }
      l.norm();
      return l;
    }
    lit any_lit(bool allow_const = true)
    {
      if (n.all_lits.empty() || (allow_const && t.chance(1, 24)))
        return t.flip() ? TRUE_lit : FALSE_lit;
      lit p = n.all_lits[t.pick(n.all_lits.size())];
      return t.flip() ? p : !p;
    }
    lit arg_lit()
    { // arguments of reified constructs: anything known except at-most-one / exactly-one results
      for (int tries = 0; tries < 4; ++tries)
      {
        lit p = any_lit();
        bool bad = false;
        for (auto &a : amo_lits)
          if (variable(a) == variable(p) && variable(p) != FALSE_var) bad = true;
        if (!bad) return p;
      }
      if (!n.user_bools.empty())
      {
        lit p = n.user_bools[t.pick(n.user_bools.size())];
        return t.flip() ? p : !p;
      }
      return TRUE_lit;
    }

    // ---- creation operations (root level only) ---------------------------------------------------------------------
    lit lra_rel()
    {
      L a = lra_expr(), b = lra_expr();
      int rel = t.pick(5);
      lin la = toLin(a), lb = toLin(b);
      lit p;
      switch (rel)
      {
      case LT: p = n.lra.new_lt(la, lb); break;
      case LEQ: p = n.lra.new_leq(la, lb); break;
      case EQ: p = n.lra.new_eq(la, lb); break;
      case GEQ: p = n.lra.new_geq(la, lb); break;
      default: p = n.lra.new_gt(la, lb); break;
      }
      n.ensure_internal_numeric();
      n.log << "  lra " << qx::str(a) << " " << rels(rel) << " " << qx::str(b) << " -> " << ls(p) << "\n";
      Meaning m;
      m.kind = Meaning::LRA_REL;
      m.rel = rel;
      m.left = a;
      m.right = b;
      n.claim(p, m);
      if (variable(p) != FALSE_var) lra_lits.push_back(p);
      return p;
    }
    lit dl_dist(bool real)
    {
      auto &pts = real ? rdl_pts : idl_pts;
      size_t from = pts[t.pick(pts.size())], to = pts[t.pick(pts.size())];
      if (from == to) to = pts[(t.pick(pts.size()))];
      if (from == to) return TRUE_lit;
      lit p;
      Meaning m;
      m.from = from;
      m.to = to;
      if (real)
      {
        mpq_class d = t.chance(1, 3) ? mpq_class(t.range(-12, 12), 2) : mpq_class(t.range(-10, 10));
        d.canonicalize();
        int k = t.chance(1, 4) ? -1 : 0;
        m.kind = Meaning::RDL_DIST;
        m.dist = E(Q(d), Q(k));
        p = n.rdl.new_distance(from, to, inf_rational(toR(d), rational(k)));
      }
      else
      {
        long d = t.range(-10, 10);
        m.kind = Meaning::IDL_DIST;
        m.dist = E(Q(d));
        p = n.idl.new_distance(from, to, d);
      }
      n.log << "  " << (real ? "rdl r" : "idl i") << to << " - " << (real ? "r" : "i") << from << " <= " << qx::str(m.dist) << " -> " << ls(p) << "\n";
      n.claim(p, m);
      if (variable(p) != FALSE_var) dl_lits.push_back(p);
      return p;
    }
    // a family of literals tightening the SAME bound / distance: assumed one after the other they update one bound at
    // several decision levels (what C08's undo layers must handle)
    std::vector<std::vector<lit>> families;
    void lra_family()
    {
      if (lra_vars.empty()) return;
      L e = lra_expr();
      if (e.c.empty()) return;
      e.k = 0;
      bool upper = t.flip();
      int c0 = t.range(-6, 10), k = t.range(2, 4);
      std::vector<lit> fam;
      for (int i = 0; i < k; ++i)
      {
        L rhs;
        rhs.k = upper ? c0 - 2 * i : c0 + 2 * i;
        int rel = upper ? (t.chance(1, 4) ? LT : LEQ) : (t.chance(1, 4) ? GT : GEQ);
        lin la = toLin(e), lb = toLin(rhs);
        lit p = rel == LT ? n.lra.new_lt(la, lb) : rel == LEQ ? n.lra.new_leq(la, lb) : rel == GEQ ? n.lra.new_geq(la, lb) : n.lra.new_gt(la, lb);
        n.ensure_internal_numeric();
        n.log << "  lra " << qx::str(e) << " " << rels(rel) << " " << qx::str(rhs) << " -> " << ls(p) << "\n";
        Meaning m;
        m.kind = Meaning::LRA_REL;
        m.rel = rel;
        m.left = e;
        m.right = rhs;
        n.claim(p, m);
        if (variable(p) != FALSE_var) { lra_lits.push_back(p); fam.push_back(p); }
      }
      if (fam.size() >= 2) families.push_back(fam);
    }
    void dl_family(bool real)
    {
      auto &pts = real ? rdl_pts : idl_pts;
      if (pts.size() < 2) return;
      size_t from = pts[t.pick(pts.size())], to = pts[t.pick(pts.size())];
      if (from == to) return;
      int d0 = t.range(-4, 10), k = t.range(2, 4);
      std::vector<lit> fam;
      for (int i = 0; i < k; ++i)
      {
        Meaning m;
        m.from = from;
        m.to = to;
        lit p;
        long d = d0 - 2 * i;
        if (real)
        {
          int ke = t.chance(1, 4) ? -1 : 0;
          m.kind = Meaning::RDL_DIST;
          m.dist = E(Q(d), Q(ke));
          p = n.rdl.new_distance(from, to, inf_rational(rational(d), rational(ke)));
        }
        else
        {
          m.kind = Meaning::IDL_DIST;
          m.dist = E(Q(d));
          p = n.idl.new_distance(from, to, d);
        }
        n.log << "  " << (real ? "rdl r" : "idl i") << to << " - " << (real ? "r" : "i") << from << " <= " << qx::str(m.dist) << " -> " << ls(p) << "\n";
        n.claim(p, m);
        if (variable(p) != FALSE_var) { dl_lits.push_back(p); fam.push_back(p); }
      }
      if (fam.size() >= 2) families.push_back(fam);
    }
    void ov_var()
    {
      int k = t.range(1, 4);
      std::vector<int> dom;
      for (int i = 0; i < 5 && (int)dom.size() < k; ++i)
        if (t.flip() || 5 - i <= k - (int)dom.size()) dom.push_back(i);
      if (dom.empty()) dom.push_back(0);
      ov_vars.push_back(n.new_ov(dom));
    }
    lit ov_eq()
    {
      if (ov_vars.size() < 2) return TRUE_lit;
      size_t a = ov_vars[t.pick(ov_vars.size())], b = ov_vars[t.pick(ov_vars.size())];
      lit p = n.ov.new_eq(a, b);
      n.dirty = true;
      n.log << "  ov o" << a << " == o" << b << " -> " << ls(p) << "\n";
      Meaning m;
      m.kind = Meaning::OV_EQ;
      m.ov = a;
      m.ov2 = b;
      n.claim(p, m);
      return p;
    }
    lit reified()
    {
      int kind = t.pick(5);
      int len = kind == 0 ? 2 : t.range(0, 6);
      std::vector<lit> args;
      for (int i = 0; i < len; ++i) args.push_back(arg_lit());
      lit p;
      z3::expr f = n.z.bool_val(true);
      z3::expr_vector ev(n.z);
      for (auto &a : args) ev.push_back(n.zl(a));
      const char *nm = "";
      switch (kind)
      {
      case 0: p = n.sat.new_eq(args[0], args[1]); f = n.zl(args[0]) == n.zl(args[1]); nm = "eq"; break;
      case 1: p = n.sat.new_conj(args); f = args.empty() ? n.z.bool_val(true) : z3::mk_and(ev); nm = "conj"; break;
      case 2: p = n.sat.new_disj(args); f = args.empty() ? n.z.bool_val(false) : z3::mk_or(ev); nm = "disj"; break;
      case 3: p = n.sat.new_at_most_one(args); nm = "at_most_one"; break;
      default: p = n.sat.new_exct_one(args); nm = "exct_one"; break;
      }
      n.dirty = true;
      n.log << "  " << nm << n.cls(args) << " -> " << ls(p) << "\n";
      n.know(p);
      if (kind <= 2)
        n.add_phi(n.zl(p) == f);
      else
      { // one-directional: the literal forces the cardinality constraint over the argument list as written (a repeated literal counts twice)
        std::vector<lit> set = args;
        std::sort(set.begin(), set.end());
          z3::expr_vector pairs(n.z);
        for (size_t i = 0; i < set.size(); ++i)
          for (size_t j = i + 1; j < set.size(); ++j) pairs.push_back(!n.zl(set[i]) || !n.zl(set[j]));
        z3::expr card = pairs.empty() ? n.z.bool_val(true) : z3::mk_and(pairs);
        if (kind == 4)
        {
          z3::expr_vector any(n.z);
          for (auto &a : set) any.push_back(n.zl(a));
          card = card && (set.empty() ? n.z.bool_val(false) : z3::mk_or(any));
        }
        n.add_phi(z3::implies(n.zl(p), card));
        n.strong.push_back(z3::implies(card, n.zl(p)));
        if (variable(p) != FALSE_var) amo_lits.push_back(p);
      }
      return p;
    }
    // 3-literal clauses near the satisfiability threshold over a small pool: conflicts need this (uniformly random clauses
    // conflict in ~2% of histories)
    void threshold_block()
    {
      std::vector<lit> pool;
      for (auto &p : n.user_bools) pool.push_back(p);
      for (auto &p : lra_lits) if (pool.size() < 9) pool.push_back(lit(variable(p)));
      for (auto &p : dl_lits) if (pool.size() < 10) pool.push_back(lit(variable(p)));
      if (pool.size() < 3) return;
      if (pool.size() > 14) pool.resize(14);
      int m = (int)(pool.size() * (7 + t.pick(3)) / 2); // 3.5 .. 4.5 clauses per variable
      for (int i = 0; i < m && !n.dead; ++i)
      {
        std::vector<lit> c;
        for (int j = 0; j < 3; ++j)
        {
          unsigned k = t.pick(2 * pool.size());
          lit p = pool[k / 2];
          c.push_back(k & 1 ? p : !p);
        }
        n.do_new_clause(c);
      }
    }
    void clause()
    {
      int len = t.chance(1, 6) ? t.range(1, 2) : 3;
      std::vector<lit> c;
      for (int i = 0; i < len; ++i) c.push_back(any_lit(false));
      n.do_new_clause(c);
    }
  };

  // ---- DL reference: closure of the currently assigned constraints ------------------------------------------------------
  struct DLState
  {
    dlref::Closure idl, rdl;
  };
  void dl_oracle(Net &n, bool real, std::vector<std::string> &fails, bool completeness)
  {
    if (n.dead || n.dirty) return;
    std::vector<dlref::Edge> edges;
    size_t np = real ? n.rdl.size() : n.idl.size();
    struct C { lit b; size_t from, to; E d; };
    std::vector<C> cs;
    if (real)
      for (auto &c : n.rdl.verif_constraints()) cs.push_back({c.b, c.from, c.to, toE(c.dist)});
    else
      for (auto &c : n.idl.verif_constraints()) cs.push_back({c.b, c.from, c.to, E(Q((long)c.dist))});
    // the dump must agree with what was requested through new_distance
    for (auto &c : cs)
    {
      auto it = n.meaning.find(variable(c.b));
      if (it != n.meaning.end() && (it->second.kind == Meaning::IDL_DIST || it->second.kind == Meaning::RDL_DIST))
        if (it->second.from != c.from || it->second.to != c.to || qx::cmp(it->second.dist, c.d) != 0)
          fails.push_back("constraint literal " + ls(c.b) + " was requested as one distance constraint and is stored as another");
    }
    for (auto &c : cs)
    {
      lbool v = n.sat.value(c.b);
      if (v == True)
        edges.push_back({c.from, c.to, c.d});
      else if (v == False)
        edges.push_back({c.to, c.from, real ? qx::esub(qx::eneg(c.d), E(Q(0), Q(1))) : qx::esub(qx::eneg(c.d), E(Q(1)))});
    }
    dlref::Closure cl = dlref::closure(np, edges);
    const char *nm = real ? "RDL" : "IDL";
    if (cl.negative_cycle)
    {
      fails.push_back(std::string(nm) + ": propagation succeeded although the asserted difference constraints contain a negative cycle");
      return;
    }
    auto got = [&](size_t i, size_t j) -> E { // upper bound of x_j - x_i
      if (real)
        return toE(n.rdl.distance(i, j).second);
      I v = n.idl.distance(i, j).second;
      return v >= idl_theory::inf() ? dlref::pinf() : E(Q((long)v));
    };
    auto gotlo = [&](size_t i, size_t j) -> E { // lower bound of x_j - x_i
      if (real)
        return toE(n.rdl.distance(i, j).first);
      I v = n.idl.distance(i, j).first;
      return v <= -idl_theory::inf() ? E(Q::ninf()) : E(Q((long)v));
    };
    for (size_t i = 0; i < np && fails.empty(); ++i)
      for (size_t j = 0; j < np; ++j)
      {
        E g = got(i, j);
        if (qx::cmp(g, cl.d[i][j]) != 0)
        {
          fails.push_back(std::string(nm) + ": distance upper bound of p" + std::to_string(j) + " - p" + std::to_string(i) + " is reported as " + qx::str(g) +
                          " but the currently asserted constraints imply exactly " + qx::str(cl.d[i][j]));
          break;
        }
        E lo = gotlo(i, j);
        E explo = cl.d[j][i].r.finite() ? qx::eneg(cl.d[j][i]) : E(Q::ninf());
        if (qx::cmp(lo, explo) != 0)
        {
          fails.push_back(std::string(nm) + ": distance lower bound of p" + std::to_string(j) + " - p" + std::to_string(i) + " is reported as " + qx::str(lo) +
                          " but the asserted constraints imply exactly " + qx::str(explo));
          break;
        }
      }
    for (size_t i = 0; i < np && fails.empty(); ++i)
    {
      E lb, ub;
      if (real)
      {
        auto b = n.rdl.bounds(i);
        lb = toE(b.first);
        ub = toE(b.second);
      }
      else
      {
        auto b = n.idl.bounds(i);
        lb = b.first <= -idl_theory::inf() ? E(Q::ninf()) : E(Q((long)b.first));
        ub = b.second >= idl_theory::inf() ? dlref::pinf() : E(Q((long)b.second));
      }
      E elb = cl.d[i][0].r.finite() ? qx::eneg(cl.d[i][0]) : E(Q::ninf());
      if (qx::cmp(lb, elb) != 0 || qx::cmp(ub, cl.d[0][i]) != 0)
        fails.push_back(std::string(nm) + ": bounds of p" + std::to_string(i) + " reported as [" + qx::str(lb) + ", " + qx::str(ub) + "], implied [" + qx::str(elb) + ", " +
                        qx::str(cl.d[0][i]) + "]");
    }
    if (completeness && fails.empty())
      for (auto &c : cs)
        if (n.sat.value(c.b) == Undefined)
        {
          if (qx::cmp(cl.d[c.from][c.to], c.d) <= 0)
            fails.push_back(std::string(nm) + ": constraint " + ls(c.b) + " (p" + std::to_string(c.to) + " - p" + std::to_string(c.from) + " <= " + qx::str(c.d) +
                            ") is implied by the current distances but was not propagated");
          else if (cl.d[c.to][c.from].r.finite() && qx::cmp(cl.d[c.to][c.from], qx::eneg(c.d)) < 0)
            fails.push_back(std::string(nm) + ": constraint " + ls(c.b) + " (p" + std::to_string(c.to) + " - p" + std::to_string(c.from) + " <= " + qx::str(c.d) +
                            ") is refuted by the current distances but was not propagated");
        }
  }

  // LRA "state is a function of the assigned literals": bounds = tightest among creation bounds and asserted assertions
  struct LraBoundsRef
  {
    std::vector<std::pair<E, E>> creation; // per variable: bounds right after creation
  };
  void lra_bounds_oracle(Net &n, LraBoundsRef &ref, std::vector<std::string> &fails)
  {
    if (n.dead || n.dirty) return;
    size_t nv = n.lra.verif_n_vars();
    if (ref.creation.size() < nv) return; // not recorded (should not happen)
    std::vector<E> lb(nv), ub(nv);
    for (size_t i = 0; i < nv; ++i)
    {
      lb[i] = ref.creation[i].first;
      ub[i] = ref.creation[i].second;
    }
    for (auto &a : n.lra.verif_assertions())
    {
      lbool v = n.sat.value(a.b);
      if (v == Undefined) continue;
      E c = toE(a.v);
      bool tr = v == True;
      if (a.is_leq == tr)
      { // upper bound: x <= c (asserted leq) or x <= c - eps (negated geq)
        E u = a.is_leq ? c : qx::esub(c, E(Q(0), Q(1)));
        if (qx::cmp(u, ub[a.x]) < 0) ub[a.x] = u;
      }
      else
      {
        E l = a.is_leq ? qx::eadd(c, E(Q(0), Q(1))) : c;
        if (qx::cmp(l, lb[a.x]) > 0) lb[a.x] = l;
      }
    }
    for (auto &b : n.probe.bounds) // bounds a client theory sets whenever their literal is true (the executor's protocol)
      if (b.v < nv && n.sat.value(b.p) == True)
      {
        E v = toE(b.val);
        if (b.lower && qx::cmp(v, lb[b.v]) > 0) lb[b.v] = v;
        if (!b.lower && qx::cmp(v, ub[b.v]) < 0) ub[b.v] = v;
      }
    for (size_t i = 0; i < nv; ++i)
    {
      E glb = toE(n.lra.lb(i)), gub = toE(n.lra.ub(i));
      if (qx::cmp(glb, lb[i]) != 0 || qx::cmp(gub, ub[i]) != 0)
      {
        fails.push_back("LRA bounds of x" + std::to_string(i) + " reported as [" + qx::str(glb) + ", " + qx::str(gub) + "] but the literals currently assigned determine [" +
                        qx::str(lb[i]) + ", " + qx::str(ub[i]) + "]");
        return;
      }
    }
  }
  void record_creation_bounds(Net &n, LraBoundsRef &ref)
  {
    size_t nv = n.lra.verif_n_vars();
    while (ref.creation.size() < nv)
    {
      size_t i = ref.creation.size();
      ref.creation.push_back({toE(n.lra.lb(i)), toE(n.lra.ub(i))});
    }
  }
  void ov_oracle(Net &n, std::vector<std::string> &fails)
  {
    if (n.dead) return;
    for (size_t v = 0; v < n.ov_dom.size(); ++v)
    {
      auto vals = n.ov.value(v);
      std::set<int> got, exp;
      for (auto *p : vals) got.insert(static_cast<ov_val *>(p)->id);
      for (int d : n.ov_dom[v])
        if (n.sat.value(n.ov.allows(v, *n.ov_vals[d])) != False) exp.insert(d);
      if (got != exp)
        fails.push_back("object variable o" + std::to_string(v) + ": reported domain differs from the set of values not yet excluded");
    }
  }

  // =====================================================================================================================
  // histories: C07 C08 C09 C10 C18c
  // =====================================================================================================================
  void case_history(pbt::Tape &t, pbt::Result &r, const pbt::Options &o)
  {
    const std::string &P = o.prop;
    if (P == "C20")
    {
      static const char *ps[] = {"1", "2", "4", "16"};
      setenv("ORATIO_VERIF_POOL", ps[t.pick(4)], 1);
    }
    Net n;
    n.res = &r;
    Gen g{t, n, o};
    bool use_lra = P == "C07" || P == "C08" || P == "C09" || P == "C18" || P == "C20";
    if (P == "C20")
    { // pool size and schedule perturbation are part of the tape; the pool is created with the network
      r.classes.insert(std::string("pool size ") + getenv("ORATIO_VERIF_POOL"));
      smt::verif::get_hooks().on_sched = &par::on_sched;
#ifdef PARALLELIZE
      smt::verif::get_hooks().on_pivot = &par::on_pivot;
#endif
      par::perturb = t.chance(3, 4);
      par::sched_seed = ((uint64_t)t.raw() << 16) ^ t.raw();
      par::failures.clear();
      par::pivots = par::pivots_multi = par::max_tasks = 0;
    }
    bool use_idl = P == "C07" || P == "C08" || P == "C10" || P == "C18";
    bool use_rdl = use_idl;
    bool use_ov = P == "C07" || P == "C08" || P == "C18";
    bool use_reified = P == "C07" || P == "C18";
    if (P == "C10")
    {
      if (o.sub == "idl") use_rdl = false;
      if (o.sub == "rdl") use_idl = false;
    }
    bool sat_only = o.sub == "sat";
    if (sat_only) use_lra = use_idl = use_rdl = use_ov = false;
    if (o.has("no_idl")) use_idl = false;
    if (o.has("no_rdl")) use_rdl = false;
    if (o.has("no_reified")) use_reified = false;
    bool oracles = P != "C18";
    n.check_lemmas = oracles;
    LraBoundsRef lref;
    int max_undo_updates = 0; // C08 feature: updates of one bound/distance undone by one pop
    bool deep_root = false, pop_after_next = false, pop_after_backjump = false, multi_hop = false, same_pair = false, negated_dl = false, resized = false;
    bool strict_active = false, pivoted = false;
    size_t max_depth = 0;

    // which observable bounds changed at which decision level (to measure "a pop undid >= 2 updates of one bound made at >= 2 levels")
    std::map<std::string, std::vector<size_t>> changed_at;
    std::map<std::string, std::string> last_obs;
    bool multi_undo = false;
    auto observe = [&]() {
      if (n.dead) return;
      std::map<std::string, std::string> obs;
      if (use_lra)
        for (size_t i = 0; i < n.lra.verif_n_vars(); ++i)
        {
          obs["xl" + std::to_string(i)] = qx::str(toE(n.lra.lb(i)));
          obs["xu" + std::to_string(i)] = qx::str(toE(n.lra.ub(i)));
        }
      if (use_idl)
        for (size_t i = 1; i < n.idl.size(); ++i)
        {
          auto b = n.idl.bounds(i);
          obs["il" + std::to_string(i)] = std::to_string(b.first);
          obs["iu" + std::to_string(i)] = std::to_string(b.second);
        }
      if (use_rdl)
        for (size_t i = 1; i < n.rdl.size(); ++i)
        {
          auto b = n.rdl.bounds(i);
          obs["rl" + std::to_string(i)] = qx::str(toE(b.first));
          obs["ru" + std::to_string(i)] = qx::str(toE(b.second));
        }
      size_t lvl = n.sat.decision_level();
      for (auto &kv : changed_at)
      {
        size_t cnt = 0;
        std::set<size_t> lv;
        for (auto l : kv.second)
          if (l > lvl) { ++cnt; lv.insert(l); }
        if (cnt >= 2 && lv.size() >= 2) multi_undo = true;
        kv.second.erase(std::remove_if(kv.second.begin(), kv.second.end(), [lvl](size_t l) { return l > lvl; }), kv.second.end());
      }
      for (auto &kv : obs)
      {
        auto it = last_obs.find(kv.first);
        if (it != last_obs.end() && it->second != kv.second && lvl > 0) changed_at[kv.first].push_back(lvl);
      }
      last_obs = obs;
    };
    auto fail_all = [&](std::vector<std::string> &own, std::vector<std::string> &other) {
      for (auto &f : own) n.violation(f);
      for (auto &f : other) n.foreign(f);
    };

    auto run_oracles = [&]() {
      if (!oracles) return;
      std::vector<std::string> c07, c08, c09, c10;
      n.flush_lemma_failures(c07);
      n.flush_s2(c07);
      n.oracle_values(c07);
      n.oracle_total(c07);
      if (use_lra)
      {
        record_creation_bounds(n, lref);
        n.oracle_lra(c09, P == "C09");
        lra_bounds_oracle(n, lref, c08);
      }
      if (use_idl) dl_oracle(n, false, c10, true);
      if (use_rdl) dl_oracle(n, true, c10, true);
      if (use_ov) ov_oracle(n, c08);
      if (P == "C07") { fail_all(c07, c08); for (auto &f : c09) n.foreign(f); for (auto &f : c10) n.foreign(f); }
      else if (P == "C08")
      { // state = function of assigned literals: bounds, distances, domains, and values w.r.t. the current decisions
        std::vector<std::string> own = c08;
        for (auto &f : c10)
          if (f.find("distance") != std::string::npos || f.find("bounds of") != std::string::npos) own.push_back(f);
          else n.foreign(f);
        for (auto &f : c07)
          if (f.find("the network reports") != std::string::npos) own.push_back(f);
          else n.foreign(f);
        for (auto &f : own) n.violation(f);
        for (auto &f : c09) n.foreign(f);
      }
      else if (P == "C09")
      {
        std::vector<std::string> own = c09;
        for (auto &f : c07)
          if (f.find("THEORY") != std::string::npos || f.find("returned false") != std::string::npos || f.find("CONFLICT") != std::string::npos || f.find("theory-inconsistent") != std::string::npos)
            own.push_back(f);
          else n.foreign(f);
        for (auto &f : own) n.violation(f);
        for (auto &f : c08) n.foreign(f);
      }
      else if (P == "C20")
      {
        std::vector<std::string> own = c09;
        for (auto &f : par::failures) own.push_back(f);
        par::failures.clear();
        for (auto &f : own) n.violation(f);
        for (auto &f : c07) n.foreign(f);
        for (auto &f : c08) n.foreign(f);
      }
      else if (P == "C10")
      {
        std::vector<std::string> own = c10;
        for (auto &f : c07) own.push_back(f); // nothing else is inferred; explanations valid
        for (auto &f : own) n.violation(f);
        for (auto &f : c08) n.foreign(f);
      }
    };

    // -------- rounds of [creation at root][search] ----------------------------------------------------------------
    int rounds = t.range(1, 3);
    for (int rd = 0; rd < rounds && !n.dead && !r.violation; ++rd)
    {
      while (!n.sat.root_level()) n.do_pop();
      n.log << "round " << rd << ": creation at root\n";
      int nb = sat_only ? t.range(rd == 0 ? 8 : 0, 14) : t.range(rd == 0 ? 2 : 0, 5);
      for (int i = 0; i < nb && n.user_bools.size() < (sat_only ? 14u : 10u); ++i) n.new_bool();
      if (use_lra)
      {
        int k = t.range(rd == 0 ? 1 : 0, 3);
        for (int i = 0; i < k && g.lra_vars.size() < 6; ++i) g.lra_vars.push_back(n.new_lra());
        if (t.chance(1, 3) && !g.lra_vars.empty())
        {
          L l = g.lra_expr();
          if (!l.c.empty()) g.lra_vars.push_back(n.new_lra_derived(l));
        }
        if (o.get("setb", "") == "1" && !g.lra_vars.empty())
        { // option of the newer runs (older tapes do not carry it): more derived variables with constants, and bounds set
          // directly through the public set_lb / set_ub (the executor's way of talking to the theory), at root level with the
          // reason TRUE and only with values the model allows - so the call and the following propagation must succeed and
          // the bound becomes part of the model. A bound on a derived variable makes a row WITH A CONSTANT leave the basis.
          if (t.flip() && g.lra_vars.size() < 8)
          {
            L l = g.lra_expr();
            if (!l.c.empty()) g.lra_vars.push_back(n.new_lra_derived(l));
          }
          int k = t.range(0, 2);
          for (int i = 0; i < k && !n.dead && !r.violation; ++i)
          {
            n.settle();
            if (n.dead) break;
            size_t v = g.lra_vars[t.pick(g.lra_vars.size())];
            bool lower = t.flip();
            mpq_class val = g.konst();
            z3::expr c = lower ? n.zlra.at(v) >= n.zq(val) : n.zlra.at(v) <= n.zq(val);
            if (n.zcheck({c}) != z3::sat) continue;
            record_creation_bounds(n, lref);
            n.add_phi(c); // before the call: the theory may record lemmas that follow from the new bound while it is being set
            n.log << "  set_" << (lower ? "lb" : "ub") << "(x" << v << ", " << val.get_str() << ", T)\n";
            bool ok = lower ? n.lra.set_lb(v, inf_rational(toR(val)), TRUE_lit) : n.lra.set_ub(v, inf_rational(toR(val)), TRUE_lit);
            n.log << "    -> " << (ok ? "true" : "false") << "\n";
            r.classes.insert("bound set directly (set_lb / set_ub)");
            if (v < lref.creation.size())
            {
              E b{Q(val)};
              if (lower && qx::cmp(b, lref.creation[v].first) > 0) lref.creation[v].first = b;
              if (!lower && qx::cmp(b, lref.creation[v].second) < 0) lref.creation[v].second = b;
            }
            if (!ok) { n.violation(std::string("set_") + (lower ? "lb" : "ub") + " returned false at root level although the constraints allow the bound"); break; }
            n.dirty = true;
            n.settle();
          }
        }
        // the same calls with an arbitrary reason literal and arbitrary values, possibly infeasible (end of the creation phase of
        // round >= 1, so that standing structure exists): the executor's protocol. A bound the constraints allow must be
        // accepted; when the call fails, the explanation it leaves behind must follow from the constraints and "reason => bound".
        if (o.get("setb", "") == "1" && rd >= 1 && !g.lra_vars.empty() && !n.dead && t.rare(1, 2))
        {
          n.settle();
          std::vector<lit> reasons{TRUE_lit};
          for (auto &p : n.all_lits)
            if (n.sat.value(p) == True) reasons.push_back(p);
            else if (n.sat.value(p) == False) reasons.push_back(!p);
          int k = t.range(1, 3);
          for (int i = 0; i < k && !n.dead && !r.violation; ++i)
          {
            lit p = reasons[t.pick(reasons.size())];
            size_t v = g.lra_vars[t.pick(g.lra_vars.size())];
            bool lower = t.flip();
            mpq_class val = g.konst();
            z3::expr c = lower ? n.zlra.at(v) >= n.zq(val) : n.zlra.at(v) <= n.zq(val);
            z3::expr imp = z3::implies(n.zl(p), c);
            bool feasible = n.zcheck({c}) == z3::sat; // root level: no standing decisions
            record_creation_bounds(n, lref);
            n.log << "  set_" << (lower ? "lb" : "ub") << "(x" << v << ", " << val.get_str() << ", " << ls(p) << ")" << (feasible ? "" : "  [not satisfiable together with the constraints]") << "\n";
            r.classes.insert(feasible ? "bound set with a reason literal" : "infeasible bound set with a reason literal");
            bool keep = n.check_lemmas;
            if (feasible) n.add_phi(imp);
            else n.check_lemmas = false; // lemmas recorded inside the call follow from a bound the model does not have yet
            bool ok = lower ? n.lra.set_lb(v, inf_rational(toR(val)), p) : n.lra.set_ub(v, inf_rational(toR(val)), p);
            n.check_lemmas = keep;
            n.log << "    -> " << (ok ? "true" : "false") << "\n";
            if (ok && v < lref.creation.size())
            { // the reason is assigned at root level, so the bound stays for good
              E b{Q(val)};
              if (lower && qx::cmp(b, lref.creation[v].first) > 0) lref.creation[v].first = b;
              if (!lower && qx::cmp(b, lref.creation[v].second) < 0) lref.creation[v].second = b;
            }
            if (feasible)
            {
              if (!ok) { n.violation(std::string("set_") + (lower ? "lb" : "ub") + " with a reason literal returned false although the constraints allow the bound"); break; }
              n.dirty = true;
              n.settle();
            }
            else if (!ok)
            { // the explanation the theory leaves for its client
              std::vector<lit> cl = n.probe.take(n.lra);
              n.log << "    explanation " << n.cls(cl) << "\n";
              std::vector<z3::expr> ex = n.impl_defs();
              ex.push_back(imp);
              for (auto &q : cl) ex.push_back(!n.zl(q));
              if (n.zcheck(ex) == z3::sat)
                n.violation("the explanation " + n.cls(cl) + " of a failed set_" + (lower ? "lb" : "ub") + "(x" + std::to_string(v) + ", " + val.get_str() + ", " + ls(p) + ") does not follow from the constraints and the bound's reason");
              r.classes.insert("explanation of a failed bound checked");
              n.dead = true; // the client would now backjump; the history ends here
            }
            else
            { // accepted for now: the inconsistency is for the next propagation to find
              n.add_phi(imp);
              n.dirty = true;
              n.settle();
            }
          }
        }
      }
      if (use_lra && o.get("setb", "") == "1" && !g.lra_vars.empty() && !n.dead && t.rare(1, 2))
      { // bounds in the hands of a client theory (the executor's protocol): "whenever literal p is true, x >= c (x <= c)". The
        // client sets the bound from its propagate() callback with p as the reason; when the call fails it passes the theory's
        // explanation on to the sat core as its own conflict. In the model: p => bound, for good.
        n.settle();
        n.probe.lra = &n.lra;
        int k = t.range(1, 3);
        for (int i = 0; i < k && !n.dead; ++i)
        {
          lit p = g.any_lit(false);
          for (int j = 0; j < 4 && n.sat.value(p) != Undefined; ++j) p = g.any_lit(false);
          if (n.sat.value(p) != Undefined) continue;
          size_t v = g.lra_vars[t.pick(g.lra_vars.size())];
          bool lower = t.flip();
          mpq_class val = g.konst();
          n.add_phi(z3::implies(n.zl(p), lower ? n.zlra.at(v) >= n.zq(val) : n.zlra.at(v) <= n.zq(val)));
          n.probe.watch(p, v, lower, inf_rational(toR(val)));
          n.log << "  client bound: whenever " << ls(p) << " then x" << v << (lower ? " >= " : " <= ") << val.get_str() << "\n";
          r.classes.insert("bound set by a client theory when its literal becomes true");
        }
      }
      if (use_idl)
      {
        int k = t.range(rd == 0 ? 2 : 0, 4);
        if (P == "C10" && t.rare(1, 8)) k = 17; // cross the 16x16 matrix
        for (int i = 0; i < k && g.idl_pts.size() < 24; ++i) g.idl_pts.push_back(n.new_idl());
        if (g.idl_pts.size() > 16) resized = true;
      }
      if (use_rdl)
      {
        int k = t.range(rd == 0 ? 2 : 0, 4);
        if (P == "C10" && t.rare(1, 8)) k = 17;
        for (int i = 0; i < k && g.rdl_pts.size() < 24; ++i) g.rdl_pts.push_back(n.new_rdl());
        if (g.rdl_pts.size() > 16) resized = true;
      }
      if (use_ov)
      {
        int k = t.range(0, 2);
        for (int i = 0; i < k && g.ov_vars.size() < 4; ++i) g.ov_var();
      }
      int nc = t.range(2, 14);
      for (int i = 0; i < nc && !n.dead; ++i)
      {
        unsigned w = t.pick(16);
        if (P == "C08" && t.chance(1, 3))
        {
          unsigned f = t.pick(3);
          if (f == 0 && use_lra) g.lra_family();
          else if (f == 1 && use_idl) g.dl_family(false);
          else if (use_rdl) g.dl_family(true);
          continue;
        }
        if (w < 3 && use_lra) g.lra_rel();
        else if (w < 5 && use_idl) g.dl_dist(false);
        else if (w < 7 && use_rdl) g.dl_dist(true);
        else if (w < 8 && use_ov) g.ov_eq();
        else if (w < 9 && use_reified) g.reified();
        else if (w < 10 && (use_idl || use_rdl) && P == "C10") g.dl_dist(use_rdl && (!use_idl || t.flip()));
        else if (w < 10 && use_lra && (P == "C09" || P == "C20")) g.lra_rel();
        else if (w < 14 && P == "C20") g.lra_rel();
        else if (w < 12 && (P == "C10" || P == "C09") && (g.dl_lits.size() + g.lra_lits.size()) >= 2)
        { // implications between theory literals: the SAT side forces a literal the theory may refute in the same round
          std::vector<lit> &pl = P == "C10" ? g.dl_lits : g.lra_lits;
          lit a = pl[t.pick(pl.size())], b = pl[t.pick(pl.size())];
          n.do_new_clause({t.flip() ? a : !a, t.flip() ? b : !b});
        }
        else g.clause();
      }
      if (!n.dead && (P == "C07" || P == "C18") && (t.chance(rd == 0 ? 3 : 1, 4) || (sat_only && rd == 0))) g.threshold_block();
      if (use_lra) record_creation_bounds(n, lref);
      if (t.chance(1, 5)) n.do_simplify();
      n.settle();
      run_oracles();
      if (n.dead || r.violation) break;

      n.log << "round " << rd << ": search\n";
      int ns = sat_only ? t.range(4, 48) : t.range(2, 24);
      bool last_was_next = false, last_backjumped = false;
      for (int i = 0; i < ns && !n.dead && !r.violation; ++i)
      {
        unsigned w = t.pick(16);
        if (P == "C08" && w >= 11 && w < 14 && t.flip()) w = 0; // C08: longer assumption chains
        size_t lvl_before = n.sat.decision_level();
        if (w < 9)
        {
          // assumption: biased to theory literals (they tighten the same bounds/distances at several levels)
          lit p;
          unsigned s = t.pick(4);
          if (!g.families.empty() && P == "C08" && t.chance(1, 2))
          { // next not-yet-assigned member of a family, loosest first
            auto &fam = g.families[t.pick(g.families.size())];
            p = fam[0];
            for (auto &q : fam)
              if (n.sat.value(q) == Undefined) { p = q; break; }
          }
          else if (P == "C10" && s != 3 && !g.dl_lits.empty()) { p = g.dl_lits[t.pick(g.dl_lits.size())]; if (t.chance(1, 3)) p = !p; }
          else if ((P == "C09" || P == "C20") && s != 3 && !g.lra_lits.empty()) { p = g.lra_lits[t.pick(g.lra_lits.size())]; if (t.chance(1, 3)) p = !p; }
          else if (s == 0 && !g.lra_lits.empty()) { p = g.lra_lits[t.pick(g.lra_lits.size())]; if (t.flip()) p = !p; }
          else if (s == 1 && !g.dl_lits.empty()) { p = g.dl_lits[t.pick(g.dl_lits.size())]; if (t.chance(1, 3)) p = !p; }
          else p = g.any_lit(false);
          // prefer unassigned literals: deep chains instead of repeated no-ops
          for (int k = 0; k < 3 && n.sat.value(p) != Undefined; ++k) p = g.any_lit(false);
          long cf = n.n_conflicts;
          n.do_assume(p);
          last_backjumped = n.n_conflicts > cf;
          last_was_next = false;
          if (lvl_before >= 2 && n.sat.decision_level() + 2 <= lvl_before + 1) ++n.n_backjump2;
        }
        else if (w < 11)
        {
          if (!n.sat.root_level())
          {
            if (last_was_next) pop_after_next = true;
            if (last_backjumped) pop_after_backjump = true;
          }
          n.do_pop();
          if (P == "C08")
            for (int j = t.range(0, 3); j > 0; --j) n.do_pop();
          last_was_next = last_backjumped = false;
        }
        else if (w < 12) { n.do_next(); last_was_next = true; last_backjumped = false; }
        else if (w < 13)
        {
          std::vector<lit> ls_;
          int k = t.range(1, 3);
          for (int j = 0; j < k; ++j) ls_.push_back(g.any_lit(false));
          n.do_check(ls_);
        }
        else if (w < 14) { n.settle(); if (!n.dead) { bool ok = n.do_propagate(); if (!ok) n.on_false_root("propagate()"); } }
        else
        { // multi-level pop
          int k = t.range(1, 4);
          for (int j = 0; j < k; ++j) n.do_pop();
          if (lvl_before >= 4 && n.sat.root_level()) deep_root = true;
        }
        max_depth = std::max(max_depth, n.sat.decision_level());
        if (P == "C08") observe();
        run_oracles();
      }
    }
    // features
    if (use_lra)
    {
      for (auto &kv : n.meaning)
        if (kv.second.kind == Meaning::LRA_REL && (kv.second.rel == LT || kv.second.rel == GT) && n.sat.value(kv.first) != Undefined) strict_active = true;
      for (auto &a : n.lra.verif_assertions())
        if (n.sat.value(a.b) == False) strict_active = true;
      for (auto &v : g.lra_vars)
        if (!n.lra_is_derived[v] && n.lra.is_basic(v)) pivoted = true;
    }
    if (use_idl || use_rdl)
    {
      std::map<std::pair<size_t, size_t>, int> per_pair;
      for (auto &c : n.idl.verif_constraints()) { per_pair[{c.from, c.to}]++; if (n.sat.value(c.b) == False) negated_dl = true; }
      for (auto &c : n.rdl.verif_constraints()) { per_pair[{c.from + 1000, c.to}]++; if (n.sat.value(c.b) == False) negated_dl = true; }
      for (auto &kv : per_pair) if (kv.second >= 2) same_pair = true;
    }
    (void)max_undo_updates;
    (void)multi_hop;
    r.counters["conflicts"] = n.n_conflicts;
    r.counters["theory_lemmas"] = n.n_theory_lemmas;
    r.counters["client_bounds_set_during_propagation"] = n.probe.fired;
    r.counters["client_bound_conflicts_handed_to_the_core"] = n.probe.conflicts;
    r.counters["theory_conflicts"] = n.n_theory_conflicts;
    r.counters["next"] = n.n_next;
    r.counters["z3_queries"] = n.n_z3;
    r.counters["total_assignments_checked"] = n.n_total_assignments;
    if (n.n_learnt_ge2) r.classes.insert("learnt clause >= 2 literals");
    if (n.n_backjump2) r.classes.insert("backjump over >= 2 levels");
    if (n.n_theory_lemmas) r.classes.insert("theory lemma");
    if (n.n_theory_conflicts) r.classes.insert("theory conflict");
    if (n.n_next) r.classes.insert("next()");
    if (multi_undo) r.classes.insert("pop undid >= 2 updates of one bound made at >= 2 levels");
    if (pop_after_next) r.classes.insert("pop after next");
    if (pop_after_backjump) r.classes.insert("pop after backjump");
    if (deep_root) r.classes.insert("root reached from depth >= 4");
    if (max_depth >= 4) r.classes.insert("depth >= 4");
    if (same_pair) r.classes.insert("several constraints on one pair");
    if (negated_dl) r.classes.insert("negated difference constraint");
    if (resized) r.classes.insert("matrix growth beyond 16");
    if (strict_active) r.classes.insert("strict constraint active");
    if (pivoted) r.classes.insert("pivot happened");
    if (n.dead) r.classes.insert("root-level inconsistency");
    if (P == "C07" || P == "C18")
      r.nontrivial = n.n_learnt_ge2 > 0 || n.n_backjump2 > 0 || n.n_theory_lemmas > 0;
    else if (P == "C08")
      r.nontrivial = multi_undo;
    else if (P == "C09")
      r.nontrivial = pivoted && (n.n_theory_conflicts > 0 || n.n_theory_lemmas > 0);
    else if (P == "C20")
    {
      r.nontrivial = par::pivots_multi > 0;
      r.counters["pivots"] = par::pivots;
      r.counters["pivots_with_parallel_tasks"] = par::pivots_multi;
      r.counters["schedule_perturbations"] = par::perturbations.load();
      if (par::max_tasks >= 3) r.classes.insert("pivot with >= 3 parallel row tasks");
      if (par::perturb) r.classes.insert("perturbed schedule");
    }
    else if (P == "C10")
      r.nontrivial = (n.n_theory_conflicts > 0 || n.n_theory_lemmas > 0) && (g.idl_pts.size() >= 3 || g.rdl_pts.size() >= 3);
    r.render = n.log.str();
  }


  // =====================================================================================================================
  // C13: reified boolean constructs against their truth tables, on the actual encoding (clause database + root values)
  // =====================================================================================================================
  struct Enc
  {
    std::vector<z3::expr> f;
  };
  Enc encoding(Net &n)
  {
    Enc e;
    for (auto &cl : n.sat.verif_clauses())
    {
      z3::expr_vector ev(n.z);
      for (auto &p : cl) ev.push_back(n.zl(p));
      e.f.push_back(z3::mk_or(ev));
    }
    for (var v = 1; v < n.sat.verif_n_vars(); ++v)
      if (n.sat.value(v) != Undefined)
        e.f.push_back(n.sat.value(v) == True ? n.zb(v) : !n.zb(v));
    return e;
  }

  void case_c13(pbt::Tape &t, pbt::Result &r, const pbt::Options &o)
  {
    Net n;
    n.res = &r;
    n.check_lemmas = false;
    int nb = t.range(2, 8);
    std::vector<lit> base;
    for (int i = 0; i < nb; ++i) base.push_back(n.new_bool());
    // root-level pre-assignments
    std::vector<z3::expr> pre;
    std::vector<lit> pre_lits_early;
    bool root_decided = false, big = false, cache_hit = false, nested = false, sibling = false;
    int npre = t.chance(1, 2) ? t.range(0, 3) : 0;
    for (int i = 0; i < npre; ++i)
    {
      lit p = base[t.pick(base.size())];
      if (t.flip()) p = !p;
      if (n.sat.value(p) != Undefined) continue;
      bool ok = n.sat.new_clause({p}) && n.sat.propagate();
      n.log << "  root: " << ls(p) << (ok ? "" : " (inconsistent)") << "\n";
      if (!ok) { r.render = n.log.str(); return; }
      pre.push_back(n.zl(p));
      pre_lits_early.push_back(p);
    }
    struct Built { int kind; std::vector<lit> args; lit res; };
    std::vector<Built> built;
    std::map<size_t, z3::expr> form; // literal index -> formula over base variables (positive literal of a variable)
    auto F = [&](const lit &p) -> z3::expr {
      if (variable(p) == FALSE_var) return n.z.bool_val(!sign(p));
      auto it = form.find(variable(p));
      z3::expr f = it == form.end() ? n.zb(variable(p)) : it->second;
      return sign(p) ? f : !f;
    };
    std::vector<lit> pool = base; // admissible arguments
    std::set<std::string> seen_requests;
    std::map<var, size_t> def_of; // variable of an eq/conj/disj result -> index of the request that defined it
    std::map<var, bool> def_sign;
    std::function<bool(const lit &, unsigned)> evalLit = [&](const lit &p, unsigned a) -> bool {
      if (variable(p) == FALSE_var) return !sign(p);
      bool v;
      auto it = def_of.find(variable(p));
      if (it == def_of.end())
      {
        size_t bi = std::find(base.begin(), base.end(), lit(variable(p))) - base.begin();
        v = (a >> bi) & 1;
      }
      else
      {
        const Built &b = built[it->second];
        if (b.kind == 0) v = evalLit(b.args[0], a) == evalLit(b.args[1], a);
        else if (b.kind == 1) { v = true; for (auto &x : b.args) v = v && evalLit(x, a); }
        else { v = false; for (auto &x : b.args) v = v || evalLit(x, a); }
        if (!def_sign[variable(p)]) v = !v;
      }
      return sign(p) ? v : !v;
    };
    int nc = t.range(1, 5);
    for (int ci = 0; ci < nc; ++ci)
    {
      int kind = t.pick(5);
      int len = kind == 0 ? 2 : (t.chance(1, 4) ? t.range(4, 12) : t.range(0, 5));
      std::vector<lit> args;
      if (!built.empty() && t.chance(1, 4))
      { // repeat (possibly permuted) an earlier request: the expression cache
        const Built &b = built[t.pick(built.size())];
        kind = b.kind;
        args = b.args;
        if (t.flip()) std::reverse(args.begin(), args.end());
        // the expression cache is shared by all constructs: the same argument list under the sibling construct (conj <-> disj,
        // at-most-one <-> exactly-one) must not be answered from the other one's entry (option set by the newer runs only, so
        // that tapes recorded before keep decoding to the same case)
        if (o.get("xkind", "") == "1" && kind >= 1 && t.flip()) { kind = kind == 1 ? 2 : kind == 2 ? 1 : kind == 3 ? 4 : 3; sibling = true; }
      }
      else
        for (int i = 0; i < len; ++i)
        {
          unsigned w = t.pick(12);
          lit p;
          if (w == 0) p = TRUE_lit;
          else if (w == 1) p = FALSE_lit;
          else if (w == 2 && !args.empty()) p = args[t.pick(args.size())];        // duplicate
          else if (w == 3 && !args.empty()) p = !args[t.pick(args.size())];       // complementary pair
          else p = pool[t.pick(pool.size())];
          if (w >= 4 && t.flip()) p = !p;
          args.push_back(p);
        }
      if (kind >= 3 && o.has("amo_no_duplicates"))
      { // exclusion predicate (used to search behind a confirmed finding): no literal twice in a cardinality request
        std::vector<lit> u;
        for (auto &a : args)
          if (std::find(u.begin(), u.end(), a) == u.end()) u.push_back(a);
        args = u;
      }
      if (kind == 4 && o.has("exct_min_two") && args.size() < 2) kind = 3;
      if (kind >= 3 && o.has("amo_no_root_true"))
      {
        std::vector<lit> u;
        for (auto &a : args)
          if (n.sat.value(a) != True) u.push_back(a);
        args = u;
      }
      for (auto &a : args)
      {
        if (variable(a) != FALSE_var && n.sat.value(a) != Undefined) root_decided = true;
        if (variable(a) == FALSE_var) root_decided = true;
        if (form.count(variable(a))) nested = true;
      }
      if (args.size() >= 4 && kind >= 3) big = true;
      std::string key = std::to_string(kind) + n.cls(args);
      {
        std::vector<lit> srt = args;
        std::sort(srt.begin(), srt.end());
        std::string k2 = std::to_string(kind) + n.cls(srt);
        if (!seen_requests.insert(k2).second) cache_hit = true;
      }
      lit p;
      const char *nm = "";
      switch (kind)
      {
      case 0: p = n.sat.new_eq(args[0], args[1]); nm = "eq"; break;
      case 1: p = n.sat.new_conj(args); nm = "conj"; break;
      case 2: p = n.sat.new_disj(args); nm = "disj"; break;
      case 3: p = n.sat.new_at_most_one(args); nm = "at_most_one"; break;
      default: p = n.sat.new_exct_one(args); nm = "exct_one"; break;
      }
      n.log << "  " << nm << n.cls(args) << " -> " << ls(p) << "\n";
      built.push_back({kind, args, p});
      if (kind <= 2)
      {
        z3::expr f = n.z.bool_val(true);
        z3::expr_vector ev(n.z);
        for (auto &a : args) ev.push_back(F(a));
        if (kind == 0) f = F(args[0]) == F(args[1]);
        else if (kind == 1) f = args.empty() ? n.z.bool_val(true) : z3::mk_and(ev);
        else f = args.empty() ? n.z.bool_val(false) : z3::mk_or(ev);
        if (variable(p) != FALSE_var && !form.count(variable(p)) && std::find(base.begin(), base.end(), lit(variable(p))) == base.end())
        {
          form.emplace(variable(p), sign(p) ? f : !f);
          def_of[variable(p)] = built.size() - 1;
          def_sign[variable(p)] = sign(p);
          pool.push_back(lit(variable(p)));
        }
      }
    }
    bool ok = n.sat.propagate();
    n.log << "  propagate -> " << (ok ? "true" : "false") << "\n";
    Enc enc = encoding(n);
    z3::solver zs(n.z);
    for (auto &f : enc.f) zs.add(f);
    for (auto &f : pre) zs.add(f);
    auto chk = [&](const std::vector<z3::expr> &ex) {
      zs.push();
      for (auto &e : ex) zs.add(e);
      z3::check_result res = zs.check();
      zs.pop();
      return res;
    };
    // formulas of the cardinality constraints (every position of the argument list counts: a repeated literal counts twice)
    auto card = [&](const Built &b) {
      std::vector<lit> set = b.args;
      std::sort(set.begin(), set.end());
      z3::expr_vector pairs(n.z), any(n.z);
      for (size_t i = 0; i < set.size(); ++i)
      {
        any.push_back(F(set[i]));
        for (size_t j = i + 1; j < set.size(); ++j) pairs.push_back(!F(set[i]) || !F(set[j]));
      }
      z3::expr c = pairs.empty() ? n.z.bool_val(true) : z3::mk_and(pairs);
      if (b.kind == 4) c = c && (set.empty() ? n.z.bool_val(false) : z3::mk_or(any));
      return c;
    };
    // the returned literal of eq/conj/disj used as an argument stands for its formula: tie them for the nested case
    std::vector<z3::expr> ties;
    // (i) forces: in every model of the encoding the literal equals its formula / implies its cardinality constraint
    for (auto &b : built)
    {
      static const char *nm[] = {"eq", "conj", "disj", "at_most_one", "exct_one"};
      if (b.kind <= 2)
      {
        z3::expr f = n.z.bool_val(true);
        z3::expr_vector ev(n.z);
        for (auto &a : b.args) ev.push_back(F(a));
        if (b.kind == 0) f = F(b.args[0]) == F(b.args[1]);
        else if (b.kind == 1) f = b.args.empty() ? n.z.bool_val(true) : z3::mk_and(ev);
        else f = b.args.empty() ? n.z.bool_val(false) : z3::mk_or(ev);
        if (chk({n.zl(b.res) != f}) == z3::sat)
          n.violation(std::string(nm[b.kind]) + n.cls(b.args) + " returned " + ls(b.res) + ", which is not equivalent to the formula in some model of the clause database");
      }
      else if (chk({n.zl(b.res), !card(b)}) == z3::sat)
        n.violation(std::string(nm[b.kind]) + n.cls(b.args) + " returned " + ls(b.res) + ", which can be true while the cardinality constraint is violated");
    }
    // (ii) excludes nothing: every assignment of the base variables consistent with the root units extends to a model;
    //      and a true at-most-one / exactly-one literal is compatible with every assignment satisfying the constraint
    long alphas = 0;
    bool any_card = false;
    for (auto &b : built) any_card = any_card || b.kind >= 3;
    if (!r.violation)
      for (unsigned a = 0; a < (1u << nb) && !r.violation; ++a)
      {
        std::vector<z3::expr> al;
        for (int i = 0; i < nb; ++i) al.push_back((a >> i) & 1 ? n.zb(variable(base[i])) : !n.zb(variable(base[i])));
        // consistent with the pre-assignments?
        bool cons = true;
        for (auto &pl : pre_lits_early) cons = cons && evalLit(pl, a);
        if (!cons) continue;
        ++alphas;
        // for eq/conj/disj requesting a literal must not exclude anything; for the one-directional cardinality literals the
        // statement only speaks about assignments that satisfy the constraint (checked below); a side effect on other
        // assignments is an unentailed inference, which C07 judges
        if (!any_card && chk(al) != z3::sat)
        {
          std::string as;
          for (int i = 0; i < nb; ++i) as += ((a >> i) & 1) ? "1" : "0";
          n.violation("building the expressions excludes the assignment " + as + " of the argument variables (no model of the clause database extends it)");
          break;
        }
        for (auto &b : built)
          if (b.kind >= 3)
          {
            // does the constraint hold under alpha? (every position of the argument list counts)
            {
              std::vector<lit> set = b.args;
              std::sort(set.begin(), set.end());
                      int cnt = 0;
              for (auto &x : set) cnt += evalLit(x, a) ? 1 : 0;
              if (cnt > 1 || (b.kind == 4 && cnt != 1)) continue;
            }
            std::vector<z3::expr> q = al;
            q.push_back(n.zl(b.res));
            if (chk(q) != z3::sat)
            {
              std::string as;
              for (int i = 0; i < nb; ++i) as += ((a >> i) & 1) ? "1" : "0";
              n.violation(std::string(b.kind == 3 ? "at_most_one" : "exct_one") + n.cls(b.args) + " = " + ls(b.res) + " cannot be true under the assignment " + as +
                          " although that assignment satisfies the constraint");
              break;
            }
          }
      }
    if (!ok && !r.violation && alphas > 0 && !any_card)
      n.violation("building the expressions made the network inconsistent at root level");
    r.counters["assignments_enumerated"] = alphas;
    if (root_decided) r.classes.insert("root-decided argument");
    if (big) r.classes.insert(">= 4 arguments (product encoding)");
    if (cache_hit) r.classes.insert("repeated / permuted request");
    if (nested) r.classes.insert("nested expression");
    r.nontrivial = root_decided || big || cache_hit;
    r.render = n.log.str();
  }

  // =====================================================================================================================
  // C14: object variables
  // =====================================================================================================================
  void case_c14(pbt::Tape &t, pbt::Result &r, const pbt::Options &o)
  {
    Net n;
    n.res = &r;
    n.check_lemmas = false;
    Gen g{t, n, o};
    int nv = t.range(1, 4);
    bool singleton = false, overlap = false, disjoint = false;
    for (int i = 0; i < nv; ++i)
    {
      g.ov_var();
      if (n.ov_dom.back().size() == 1) singleton = true;
    }
    struct EqL { size_t a, b; lit p; };
    std::vector<EqL> eqs;
    int ne = t.range(0, 6);
    for (int i = 0; i < ne; ++i)
    {
      size_t a = g.ov_vars[t.pick(g.ov_vars.size())], b = g.ov_vars[t.pick(g.ov_vars.size())];
      lit p = n.ov.new_eq(a, b);
      n.log << "  ov o" << a << " == o" << b << " -> " << ls(p) << "\n";
      eqs.push_back({a, b, p});
      {
        Meaning m;
        m.kind = Meaning::OV_EQ;
        m.ov = a;
        m.ov2 = b;
        n.claim(p, m);
      }
      std::set<int> da(n.ov_dom[a].begin(), n.ov_dom[a].end()), db(n.ov_dom[b].begin(), n.ov_dom[b].end());
      std::vector<int> inter;
      std::set_intersection(da.begin(), da.end(), db.begin(), db.end(), std::back_inserter(inter));
      if (a != b && inter.empty())
      {
        disjoint = true;
        if (!(p == FALSE_lit)) n.violation("equality of object variables with disjoint domains returned " + ls(p) + " instead of the false literal");
      }
      if (a != b && !inter.empty() && (inter.size() < da.size() || inter.size() < db.size())) overlap = true;
    }
    bool ok = n.sat.propagate();
    n.log << "  propagate -> " << (ok ? "true" : "false") << "\n";
    if (!ok) n.violation("creating object variables and equalities made the network inconsistent");
    Enc enc = encoding(n);
    z3::solver zs(n.z);
    for (auto &f : enc.f) zs.add(f);
    auto chk = [&](const std::vector<z3::expr> &ex) {
      zs.push();
      for (auto &e : ex) zs.add(e);
      z3::check_result res = zs.check();
      zs.pop();
      return res;
    };
    auto vl = [&](size_t v, int d) { return n.zl(n.ov.allows(v, *n.ov_vals[d])); };
    // allows(): recorded literal for allowed values, false literal for foreign values
    for (size_t v = 0; v < n.ov_dom.size(); ++v)
      for (int d = 0; d < 5; ++d)
      {
        bool in = std::find(n.ov_dom[v].begin(), n.ov_dom[v].end(), d) != n.ov_dom[v].end();
        if (!in && !(n.ov.allows(v, *n.ov_vals[d]) == FALSE_lit))
          n.violation("allows() of a value outside the domain is not the false literal");
      }
    // every model: exactly one allowed value per variable
    for (size_t v = 0; v < n.ov_dom.size() && !r.violation; ++v)
    {
      z3::expr_vector any(n.z), pairs(n.z);
      auto &dom = n.ov_dom[v];
      for (size_t i = 0; i < dom.size(); ++i)
      {
        any.push_back(vl(v, dom[i]));
        for (size_t j = i + 1; j < dom.size(); ++j) pairs.push_back(!vl(v, dom[i]) || !vl(v, dom[j]));
      }
      z3::expr ex1 = z3::mk_or(any) && (pairs.empty() ? n.z.bool_val(true) : z3::mk_and(pairs));
      if (chk({!ex1}) == z3::sat)
        n.violation("object variable o" + std::to_string(v) + " can take no value or two values in a model of the clause database");
    }
    // equality literal true iff same value
    for (auto &e : eqs)
    {
      if (r.violation) break;
      z3::expr_vector same(n.z);
      for (int d : n.ov_dom[e.a])
        if (std::find(n.ov_dom[e.b].begin(), n.ov_dom[e.b].end(), d) != n.ov_dom[e.b].end()) same.push_back(vl(e.a, d) && vl(e.b, d));
      z3::expr sv = same.empty() ? n.z.bool_val(false) : z3::mk_or(same);
      if (chk({n.zl(e.p) != sv}) == z3::sat)
        n.violation("equality literal " + ls(e.p) + " of o" + std::to_string(e.a) + " and o" + std::to_string(e.b) + " differs from 'both take the same value' in some model");
    }
    // nothing excluded: every combination of allowed values extends to a model
    long combos = 0;
    if (!r.violation)
    {
      std::vector<size_t> idx(n.ov_dom.size(), 0);
      while (true)
      {
        std::vector<z3::expr> q;
        for (size_t v = 0; v < idx.size(); ++v) q.push_back(vl(v, n.ov_dom[v][idx[v]]));
        ++combos;
        if (chk(q) != z3::sat)
        {
          n.violation("a combination of allowed values of the object variables has no model");
          break;
        }
        size_t k = 0;
        while (k < idx.size() && ++idx[k] == n.ov_dom[k].size()) idx[k++] = 0;
        if (k == idx.size()) break;
      }
    }
    // a short history over the value literals: current domain = values not yet excluded
    int ns = t.range(0, 10);
    for (int i = 0; i < ns && !n.dead && !r.violation; ++i)
    {
      if (t.chance(2, 3))
      {
        size_t v = g.ov_vars[t.pick(g.ov_vars.size())];
        int d = n.ov_dom[v][t.pick(n.ov_dom[v].size())];
        lit p = n.ov.allows(v, *n.ov_vals[d]);
        if (!eqs.empty() && t.chance(1, 3)) p = eqs[t.pick(eqs.size())].p;
        if (t.chance(1, 3)) p = !p;
        n.do_assume(p);
      }
      else
        n.do_pop();
      std::vector<std::string> f1, f2;
      ov_oracle(n, f1);
      n.oracle_values(f2);
      for (auto &f : f1) n.violation(f);
      for (auto &f : f2) n.violation(f);
    }
    r.counters["value_combinations_enumerated"] = combos;
    if (singleton) r.classes.insert("singleton domain");
    if (overlap) r.classes.insert("partially overlapping domains");
    if (disjoint) r.classes.insert("disjoint domains");
    r.nontrivial = (nv >= 2 && overlap && !eqs.empty()) || singleton || disjoint;
    r.render = n.log.str();
  }


  // =====================================================================================================================
  // C11: an LRA relation literal means its relation (fresh, shared, or constant by root bounds)
  // =====================================================================================================================
  void case_c11(pbt::Tape &t, pbt::Result &r, const pbt::Options &o)
  {
    Net n;
    n.res = &r;
    Gen g{t, n, o};
    int nv = t.range(1, 5);
    for (int i = 0; i < nv; ++i) g.lra_vars.push_back(n.new_lra());
    bool shortcut = false, shared = false, basic = false, derived = false;
    struct Req { L a, b; int rel; lit p; bool fresh; };
    std::vector<Req> reqs;
    int steps = t.range(2, 14);
    auto root_values = [&]() {
      std::map<var, lbool> m;
      for (auto &kv : n.known) m[kv.first] = n.sat.value(kv.first);
      return m;
    };
    for (int st = 0; st < steps && !n.dead && !r.violation; ++st)
    {
      unsigned w = t.pick(10);
      if (w < 6)
      { // a request
        L a = g.lra_expr(), b = g.lra_expr();
        if (!reqs.empty() && t.chance(1, 4))
        { // an equivalent request: same relation scaled by a positive constant, or sides swapped
          const Req &q = reqs[t.pick(reqs.size())];
          mpq_class k = t.flip() ? mpq_class(2) : mpq_class(1, 3);
          a = qx::lscale(q.a, k);
          b = qx::lscale(q.b, k);
        }
        int rel = t.pick(5);
        for (auto &tm : a.c) if (n.lra.is_basic(tm.first)) basic = true;
        for (auto &tm : b.c) if (n.lra.is_basic(tm.first)) basic = true;
        auto before = root_values();
        std::vector<z3::expr> none;
        bool sat_before = n.zcheck(none) == z3::sat;
        lin la = toLin(a), lb = toLin(b);
        lit p;
        switch (rel)
        {
        case LT: p = n.lra.new_lt(la, lb); break;
        case LEQ: p = n.lra.new_leq(la, lb); break;
        case EQ: p = n.lra.new_eq(la, lb); break;
        case GEQ: p = n.lra.new_geq(la, lb); break;
        default: p = n.lra.new_gt(la, lb); break;
        }
        n.ensure_internal_numeric();
        n.log << "  lra " << qx::str(a) << " " << rels(rel) << " " << qx::str(b) << " -> " << ls(p) << "\n";
        Meaning m;
        m.kind = Meaning::LRA_REL;
        m.rel = rel;
        m.left = a;
        m.right = b;
        z3::expr zm = n.zmeaning(m);
        bool fresh = false;
        if (variable(p) == FALSE_var || n.sat.value(p) != Undefined)
        { // constant answer: the root state must entail / refute the relation
          shortcut = true;
          bool tv = variable(p) == FALSE_var ? !sign(p) : n.sat.value(p) == True;
          if (sat_before && n.zcheck({tv ? !zm : zm}) == z3::sat)
            n.violation(std::string("the request returned the constant ") + (tv ? "true" : "false") + " (" + ls(p) + ") but the root-level constraints do not " +
                        (tv ? "entail" : "refute") + " " + qx::str(a) + " " + rels(rel) + " " + qx::str(b));
        }
        else if (n.is_known(p))
        { // shared with an earlier request: the two meanings must be equivalent under the root constraints
          shared = true;
          if (sat_before && n.zcheck({n.zl(p) != zm}) == z3::sat)
            n.violation("the request " + qx::str(a) + " " + rels(rel) + " " + qx::str(b) + " returned the existing literal " + ls(p) + " whose earlier meaning is not equivalent");
        }
        else
          fresh = true;
        // requesting never changes the solutions: values of pre-existing literals unchanged, network still consistent
        for (auto &kv : before)
          if (n.sat.value(kv.first) != kv.second)
            n.violation("requesting a relation literal changed the root value of the pre-existing literal b" + std::to_string(kv.first));
        n.claim(p, m);
        if (variable(p) != FALSE_var) g.lra_lits.push_back(p);
        reqs.push_back({a, b, rel, p, fresh});
        bool ok = n.sat.propagate();
        if (!ok)
        {
          n.dead = true;
          if (sat_before && n.zcheck(none) == z3::sat) n.violation("requesting a relation literal made a satisfiable network inconsistent");
        }
      }
      else if (w < 8 && !g.lra_lits.empty())
      { // tighten the root bounds: assert a literal at root
        lit p = g.lra_lits[t.pick(g.lra_lits.size())];
        if (t.chance(1, 3)) p = !p;
        if (n.sat.value(p) == Undefined)
        {
          n.do_new_clause({p});
          n.settle();
        }
      }
      else if (w < 9 && !g.lra_lits.empty())
      { // an assume / pop episode: pivots the tableau, so later requests meet basic variables
        lit p = g.lra_lits[t.pick(g.lra_lits.size())];
        if (t.flip()) p = !p;
        if (n.do_assume(p))
        {
          std::vector<std::string> f;
          n.oracle_lra(f, false);
          for (auto &x : f) n.violation(x);
          while (!n.sat.root_level()) n.do_pop();
        }
      }
      else if (!g.lra_vars.empty())
      {
        L l = g.lra_expr();
        if (!l.c.empty()) { g.lra_vars.push_back(n.new_lra_derived(l)); derived = true; }
      }
      std::vector<std::string> f;
      n.flush_s2(f);
      n.flush_lemma_failures(f);
      n.oracle_values(f);
      for (auto &x : f) n.violation(x);
    }
    // behaviour of the returned literals: assuming l / !l gives values that satisfy / falsify the relation, and the
    // assumption is refused exactly when the (conjunctive) root state makes it infeasible
    for (size_t i = 0; i < reqs.size() && !n.dead && !r.violation; ++i)
    {
      const Req &q = reqs[i];
      if (variable(q.p) == FALSE_var) continue;
      for (int sgn = 0; sgn < 2 && !n.dead && !r.violation; ++sgn)
      {
        lit p = sgn ? q.p : !q.p;
        if (n.sat.value(p) != Undefined) continue;
        std::vector<z3::expr> qz = {n.zl(p)};
        bool feas = n.zcheck(qz) == z3::sat;
        bool ok = n.do_assume(p);
        bool accepted = ok && n.sat.value(p) == True;
        std::vector<std::string> f;
        n.flush_s2(f);
        n.flush_lemma_failures(f);
        if (accepted) n.oracle_lra(f, false);
        for (auto &x : f) n.violation(x);
        bool disjunctive = false; // a false equality is a disjunction: acceptance does not imply feasibility
        for (auto &kv : n.meaning)
          if (kv.second.kind == Meaning::LRA_REL && kv.second.rel == EQ && n.sat.value(kv.first) != Undefined && ((n.sat.value(kv.first) == True) != n.meaning_sign[kv.first]))
            disjunctive = true;
        if (accepted && !feas && !disjunctive && !r.violation)
          n.violation("assuming " + ls(p) + " succeeded although its relation is infeasible together with the root-level constraints");
        while (!n.sat.root_level()) n.do_pop();
      }
    }
    if (shortcut) r.classes.insert("constant answer from root bounds");
    if (shared) r.classes.insert("literal shared with an earlier request");
    if (basic) r.classes.insert("request over a basic variable");
    if (derived) r.classes.insert("derived variable");
    r.nontrivial = shortcut || shared || basic;
    r.render = n.log.str();
  }


  // =====================================================================================================================
  // C12: difference-logic relation literals and expression queries
  // =====================================================================================================================
  void case_c12(pbt::Tape &t, pbt::Result &r, const pbt::Options &o)
  {
    Net n;
    n.res = &r;
    Gen g{t, n, o};
    bool real = o.sub == "rdl" ? true : o.sub == "idl" ? false : t.flip();
    int np = t.range(2, 6);
    auto &pts = real ? g.rdl_pts : g.idl_pts;
    for (int i = 0; i < np; ++i) pts.push_back(real ? n.new_rdl() : n.new_idl());
    // a consistent root state with some bounded and some unbounded points
    int nroot = t.range(0, 6);
    for (int i = 0; i < nroot && !n.dead; ++i)
    {
      lit p = g.dl_dist(real);
      if (variable(p) == FALSE_var || n.sat.value(p) != Undefined) continue;
      if (t.chance(1, 4)) p = !p;
      std::vector<z3::expr> q = {n.zl(p)};
      if (n.zcheck(q) != z3::sat) continue; // keep the root state consistent
      n.do_new_clause({p});
      n.settle();
    }
    if (n.dead) { r.render = n.log.str(); r.discard = true; r.discard_reason = "root state inconsistent"; return; }
    bool two_var_swapped = false, neg_c = false, strict = false, nonzero_k = false, queried = false, rejected = false;
    auto coefq = [&]() {
      static const long num[] = {1, -1, 2, -2, 3, -3, 1, -1};
      static const long den[] = {1, 1, 1, 1, 1, 1, 2, 2};
      unsigned i = t.pick(8);
      return mpq_class(num[i], den[i]);
    };
    auto konstq = [&]() {
      switch (t.pick(4))
      {
      case 0: return mpq_class(0);
      case 1: return mpq_class(t.range(-5, 5));
      case 2: return mpq_class(t.range(-12, 12));
      default: return mpq_class(t.range(-9, 9), 2);
      }
    };
    // a difference expression c*x + k or c*(x - y) + k (or a constant), as a pair (left,right) whose difference it is
    auto gen_pair = [&](L &left, L &right, mpq_class &c, bool &valid_shape) {
      left = L();
      right = L();
      valid_shape = true;
      c = coefq();
      mpq_class k = konstq();
      unsigned shape = t.pick(8);
      size_t x = pts[t.pick(pts.size() - 1) + 1], y = pts[t.pick(pts.size() - 1) + 1];
      if (shape == 0) { left.k = k; right.k = konstq(); }
      else if (shape <= 3)
      { // one variable: on the left, on the right, or split constants
        if (t.flip()) { left.c[x] = c; left.k = k; right.k = konstq(); }
        else { right.c[x] = c; right.k = k; left.k = konstq(); }
      }
      else if (shape <= 6)
      { // two variables: c*x + k  vs  c*y + k'   (difference c*(x-y) + (k-k'))
        if (x == y) y = pts[(t.pick(pts.size() - 1)) + 1];
        if (x == y) { left.c[x] = c; left.k = k; right.k = konstq(); }
        else
        {
          if (t.flip()) { left.c[x] = c; right.c[y] = c; }
          else { left.c[x] = c; left.c[y] = -c; } // both on one side
          left.k = k;
          right.k += konstq();
          if (x > y) two_var_swapped = true;
        }
      }
      else
      { // outside the documented shapes: must be rejected cleanly
        valid_shape = false;
        size_t z = pts[t.pick(pts.size() - 1) + 1];
        if (x == y || pts.size() < 4) { left.c[x] = 2; right.c[y == x ? pts[1 + (x == pts[1] ? 1 : 0)] : y] = 3; }
        else { left.c[x] = 1; left.c[y] = 1; if (z != x && z != y) right.c[z] = 1; }
        L d = qx::lsub(left, right);
        // it may accidentally be a valid difference expression; decide from the difference
        valid_shape = d.c.size() <= 1 || (d.c.size() == 2 && d.c.begin()->second == -std::next(d.c.begin())->second);
      }
      left.norm();
      right.norm();
      if (sgn(c) < 0) neg_c = true;
      if (sgn(left.k) != 0 || sgn(right.k) != 0) nonzero_k = true;
    };
    // exact interval of an expression from the theory's own variable-level distances
    auto vdist = [&](size_t from, size_t to, E &lo, E &hi) { // bounds of to - from
      if (real)
      {
        auto d = n.rdl.distance(from, to);
        lo = toE(d.first);
        hi = toE(d.second);
      }
      else
      {
        auto d = n.idl.distance(from, to);
        lo = d.first <= -idl_theory::inf() ? E(Q::ninf()) : E(Q((long)d.first));
        hi = d.second >= idl_theory::inf() ? E(Q::pinf()) : E(Q((long)d.second));
      }
    };
    auto expr_bounds = [&](const L &d, E &lo, E &hi) -> bool { // d must be a difference expression
      if (d.c.empty()) { lo = hi = E(Q(d.k)); return true; }
      E l0, h0;
      mpq_class c;
      if (d.c.size() == 1) { vdist(0, d.c.begin()->first, l0, h0); c = d.c.begin()->second; }
      else if (d.c.size() == 2 && d.c.begin()->second == -std::next(d.c.begin())->second)
      { // c*(x - y): x - y in distance(y, x)
        vdist(std::next(d.c.begin())->first, d.c.begin()->first, l0, h0);
        c = d.c.begin()->second;
      }
      else return false;
      auto sc = [&](const E &v) -> E {
        if (!v.r.finite()) return (v.r.inf > 0) == (sgn(c) > 0) ? E(Q::pinf()) : E(Q::ninf());
        return qx::eadd(qx::escale(v, Q(c)), E(Q(d.k)));
      };
      if (sgn(c) > 0) { lo = sc(l0); hi = sc(h0); }
      else { lo = sc(h0); hi = sc(l0); }
      return true;
    };
    auto same_side = [&](const E &got, const E &exp) { return !exp.r.finite() || qx::cmp(got, exp) == 0; };

    int steps = t.range(2, 10);
    for (int st = 0; st < steps && !n.dead && !r.violation; ++st)
    {
      L left, right;
      mpq_class c;
      bool valid;
      gen_pair(left, right, c, valid);
      L diff = qx::lsub(left, right);
      lin ll = toLin(left), lr = toLin(right);
      // normalised constant (what the theory must represent): k / c
      bool representable = valid;
      if (!real && valid && !diff.c.empty())
      {
        mpq_class kk = diff.k / diff.c.begin()->second;
        if (kk.get_den() != 1) representable = false;
      }
      if (t.chance(2, 3))
      { // ---- relation literal ------------------------------------------------------------------------------------
        int rel = t.pick(5);
        if (rel == LT || rel == GT) strict = true;
        std::vector<z3::expr> none;
        bool sat_before = n.zcheck(none) == z3::sat;
        lit p;
        bool threw = false;
        try
        {
          if (real)
            switch (rel)
            {
            case LT: p = n.rdl.new_lt(ll, lr); break;
            case LEQ: p = n.rdl.new_leq(ll, lr); break;
            case EQ: p = n.rdl.new_eq(ll, lr); break;
            case GEQ: p = n.rdl.new_geq(ll, lr); break;
            default: p = n.rdl.new_gt(ll, lr); break;
            }
          else
            switch (rel)
            {
            case LT: p = n.idl.new_lt(ll, lr); break;
            case LEQ: p = n.idl.new_leq(ll, lr); break;
            case EQ: p = n.idl.new_eq(ll, lr); break;
            case GEQ: p = n.idl.new_geq(ll, lr); break;
            default: p = n.idl.new_gt(ll, lr); break;
            }
        }
        catch (const std::invalid_argument &)
        {
          threw = true;
        }
        n.log << "  " << (real ? "rdl " : "idl ") << qx::str(left) << " " << rels(rel) << " " << qx::str(right) << " -> " << (threw ? "invalid_argument" : ls(p)) << "\n";
        if (threw)
        {
          rejected = true;
          if (representable)
            n.violation("a representable difference relation was rejected: " + qx::str(left) + " " + rels(rel) + " " + qx::str(right));
          continue;
        }
        if (!valid)
        {
          n.violation("an expression outside the difference-logic shapes was accepted: " + qx::str(left) + " " + rels(rel) + " " + qx::str(right));
          continue;
        }
        if (!representable) continue; // accepted although not representable: nothing is claimed about it
        Meaning m;
        m.kind = real ? Meaning::RDL_REL : Meaning::IDL_REL;
        m.rel = rel;
        m.left = left;
        m.right = right;
        z3::expr zm = n.zmeaning(m);
        if (variable(p) == FALSE_var || n.sat.value(p) != Undefined)
        {
          bool tv = variable(p) == FALSE_var ? !sign(p) : n.sat.value(p) == True;
          if (sat_before && n.zcheck({tv ? !zm : zm}) == z3::sat)
            n.violation(std::string("the request returned the constant ") + (tv ? "true" : "false") + " but the network does not " + (tv ? "entail" : "refute") + " " +
                        qx::str(left) + " " + rels(rel) + " " + qx::str(right));
          n.claim(p, m);
          continue;
        }
        if (n.is_known(p))
        {
          if (sat_before && n.zcheck({n.zl(p) != zm}) == z3::sat)
            n.violation("the request returned an existing literal with a different meaning");
          n.claim(p, m);
          continue;
        }
        n.claim(p, m);
        n.dirty = true;
        n.settle();
        // behaviour: assuming the literal / its negation is accepted exactly when feasible, and the distances then agree
        for (int sg = 0; sg < 2 && !n.dead && !r.violation; ++sg)
        {
          lit q = sg ? p : !p;
          if (n.sat.value(q) != Undefined) continue;
          bool feas = n.zcheck({n.zl(q)}) == z3::sat;
          if (rel == EQ && sg == 0) feas = true; // a false equality is a disjunction: acceptance is not a feasibility claim
          bool ok = n.do_assume(q);
          bool accepted = ok && n.sat.value(q) == True;
          std::vector<std::string> f;
          n.flush_s2(f);
          n.flush_lemma_failures(f);
          if (accepted) dl_oracle(n, real, f, false);
          for (auto &x : f) n.violation(x);
          if (accepted && !feas && !r.violation)
            n.violation("assuming " + ls(q) + " (" + (sg ? "" : "not ") + qx::str(left) + " " + rels(rel) + " " + qx::str(right) + ") succeeded although it is infeasible");
          while (!n.sat.root_level()) n.do_pop();
        }
      }
      else
      { // ---- expression queries --------------------------------------------------------------------------------------
        queried = true;
        E lo, hi;
        unsigned which = t.pick(3);
        try
        {
          if (which == 0)
          { // bounds(left - right as one expression)
            if (!expr_bounds(diff, lo, hi)) continue;
            lin ld = toLin(diff);
            E glo, ghi;
            if (real) { auto b = n.rdl.bounds(ld); glo = toE(b.first); ghi = toE(b.second); }
            else { auto b = n.idl.bounds(ld); glo = E(Q((long)b.first)); ghi = E(Q((long)b.second)); }
            n.log << "  bounds(" << qx::str(diff) << ") -> [" << qx::str(glo) << ", " << qx::str(ghi) << "]\n";
            bool integral = real || (lo.r.finite() ? lo.r.v.get_den() == 1 : true) & (hi.r.finite() ? hi.r.v.get_den() == 1 : true);
            if (integral && (!same_side(glo, lo) || !same_side(ghi, hi)))
              n.violation("bounds(" + qx::str(diff) + ") = [" + qx::str(glo) + ", " + qx::str(ghi) + "] but the variable-level distances give [" + qx::str(lo) + ", " + qx::str(hi) + "]");
          }
          else if (which == 1)
          { // distance(from = right, to = left): bounds of left - right
            if (!expr_bounds(diff, lo, hi)) continue;
            E glo, ghi;
            if (real) { auto b = n.rdl.distance(lr, ll); glo = toE(b.first); ghi = toE(b.second); }
            else { auto b = n.idl.distance(lr, ll); glo = b.first <= -idl_theory::inf() ? E(Q::ninf()) : E(Q((long)b.first)); ghi = b.second >= idl_theory::inf() ? E(Q::pinf()) : E(Q((long)b.second)); }
            n.log << "  distance(" << qx::str(right) << " -> " << qx::str(left) << ") -> [" << qx::str(glo) << ", " << qx::str(ghi) << "]\n";
            bool integral = real || (lo.r.finite() ? lo.r.v.get_den() == 1 : true) & (hi.r.finite() ? hi.r.v.get_den() == 1 : true);
            if (integral && (!same_side(glo, lo) || !same_side(ghi, hi)))
              n.violation("distance(" + qx::str(right) + ", " + qx::str(left) + ") = [" + qx::str(glo) + ", " + qx::str(ghi) + "] but the variable-level distances give [" + qx::str(lo) + ", " +
                          qx::str(hi) + "] for the difference");
          }
          else
          { // equates(left, right): possible equality <=> 0 in bounds(left - right)
            if (left.c.size() > 1 || right.c.size() > 1) continue;
            if (!expr_bounds(diff, lo, hi)) continue;
            bool got = real ? n.rdl.equates(ll, lr) : n.idl.equates(ll, lr);
            bool exp = qx::cmp(lo, E(Q(0))) <= 0 && qx::cmp(hi, E(Q(0))) >= 0;
            n.log << "  equates(" << qx::str(left) << ", " << qx::str(right) << ") -> " << (got ? "true" : "false") << "\n";
            if (got != exp)
              n.violation("equates(" + qx::str(left) + ", " + qx::str(right) + ") = " + (got ? "true" : "false") + " but the difference ranges over [" + qx::str(lo) + ", " + qx::str(hi) + "]");
          }
        }
        catch (const std::invalid_argument &)
        {
          rejected = true;
          n.log << "  query on " << qx::str(left) << " / " << qx::str(right) << " -> invalid_argument\n";
          bool ints = true;
          for (auto &tm : diff.c) if (tm.second.get_den() != 1) ints = false;
          if (diff.k.get_den() != 1 || left.k.get_den() != 1 || right.k.get_den() != 1) ints = false;
          for (auto &tm : left.c) if (tm.second.get_den() != 1) ints = false;
          for (auto &tm : right.c) if (tm.second.get_den() != 1) ints = false;
          if (valid && (real || ints) && which != 2)
            n.violation("a query on a valid difference expression was rejected: " + qx::str(left) + " / " + qx::str(right));
        }
      }
      std::vector<std::string> f;
      n.flush_s2(f);
      n.flush_lemma_failures(f);
      n.oracle_values(f);
      for (auto &x : f) n.violation(x);
    }
    if (two_var_swapped) r.classes.insert("two variables, larger id first");
    if (neg_c) r.classes.insert("negative coefficient");
    if (strict) r.classes.insert("strict relation");
    if (nonzero_k) r.classes.insert("non-zero constant");
    if (queried) r.classes.insert("expression query");
    if (rejected) r.classes.insert("clean rejection");
    r.classes.insert(real ? "rdl" : "idl");
    r.nontrivial = two_var_swapped || neg_c || strict || nonzero_k;
    r.render = n.log.str();
  }

  void dispatch(pbt::Tape &t, pbt::Result &r, const pbt::Options &o)
  {
    if (o.prop == "C11") { case_c11(t, r, o); return; }
    if (o.prop == "C12") { case_c12(t, r, o); return; }
    if (o.prop == "C13") case_c13(t, r, o);
    else if (o.prop == "C14") case_c14(t, r, o);
    else case_history(t, r, o);
  }

  pbt::Config cfg_for(const pbt::Options &o)
  {
    pbt::Config c;
    c.default_budget_ms = 20000;
    c.crash_is_violation = o.prop == "C18" || o.prop == "C20"; // C20: a ThreadSanitizer report ends the child abnormally
    return c;
  }
} // namespace

int main(int argc, char **argv) { return pbt::run(argc, argv, dispatch, cfg_for); }
