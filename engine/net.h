// The network harness (DESIGN §3): a sat_core with the four theories bound exactly as ratio::core composes them,
// mirrored by a semantic model (Z3 formulas over the literals' claimed meanings + own Floyd-Warshall for DL).
#pragma once
#include "pbt.h"
#include "qx.h"
#include "sat_core.h"
#include "lra_theory.h"
#include "ov_theory.h"
#include "idl_theory.h"
#include "rdl_theory.h"
#include "verif_hooks.h"
#include <z3++.h>
#include <functional>
#include <memory>
#include <sstream>

namespace net
{
  using namespace smt;
  using qx::E;
  using qx::L;
  using qx::Q;

  inline Q toQ(const rational &x)
  {
    if (x.denominator() == 0)
      return x.numerator() > 0 ? Q::pinf() : Q::ninf();
    return Q(x.numerator(), x.denominator());
  }
  inline E toE(const inf_rational &x) { return E(toQ(x.get_rational()), toQ(x.get_infinitesimal())); }
  inline rational toR(const mpq_class &q) { return rational(q.get_num().get_si(), q.get_den().get_si()); }
  inline lin toLin(const L &l)
  {
    lin r;
    for (auto &t : l.c)
      if (sgn(t.second) != 0)
        r.vars.emplace(t.first, toR(t.second));
    r.known_term = toR(l.k);
    return r;
  }
  inline std::string ls(const lit &p)
  {
    if (p == TRUE_lit) return "T";
    if (p == FALSE_lit) return "F";
    return (sign(p) ? "b" : "!b") + std::to_string(variable(p));
  }
  inline std::string lbs(lbool v) { return v == True ? "T" : v == False ? "F" : "U"; }

  enum Rel { LT = 0, LEQ = 1, EQ = 2, GEQ = 3, GT = 4 };
  inline const char *rels(int r)
  {
    static const char *n[] = {"<", "<=", "==", ">=", ">"};
    return n[r];
  }
  inline bool holds(int rel, int c) // c = cmp(left,right)
  {
    switch (rel)
    {
    case LT: return c < 0;
    case LEQ: return c <= 0;
    case EQ: return c == 0;
    case GEQ: return c >= 0;
    default: return c > 0;
    }
  }

  struct ov_val : public var_value
  {
    int id;
    explicit ov_val(int i) : id(i) {}
  };

  // what a theory literal is claimed to mean
  struct Meaning
  {
    enum Kind { NONE, LRA_REL, IDL_DIST, RDL_DIST, IDL_REL, RDL_REL, OV_VAL, OV_EQ, FORMULA } kind = NONE;
    int rel = 0;
    L left, right;     // LRA_REL / IDL_REL / RDL_REL: left rel right
    size_t from = 0, to = 0;
    E dist;            // *_DIST: to - from <= dist
    size_t ov = 0, ov2 = 0;
    int val = 0;
  };

  struct Pending
  {
    std::vector<lit> clause;
    int origin;
    bool checked = false;
  };

  // A client theory in the executor's role: it only exists to take over the conflict explanation another theory leaves behind
  // when one of its public bound-setting calls fails (theory::swap_conflict is protected).
  // It can also play the executor's whole protocol: bounds registered for a literal are set (with that literal as the reason)
  // whenever the literal becomes true, and a failing call hands the explanation to the sat core as this theory's conflict.
  struct ProbeTheory : public smt::theory
  {
    explicit ProbeTheory(sat_core &s) : smt::theory(s) {}
    std::vector<lit> take(smt::theory &from)
    {
      swap_conflict(from);
      std::vector<lit> c = cnfl;
      cnfl.clear();
      return c;
    }
    struct Bound
    {
      lit p;
      smt::var v;
      bool lower;
      inf_rational val;
    };
    std::vector<Bound> bounds;
    lra_theory *lra = nullptr;
    long fired = 0, conflicts = 0;
    void watch(const lit &p, smt::var v, bool lower, const inf_rational &val)
    {
      bounds.push_back({p, v, lower, val});
      bind(variable(p));
    }

  private:
    bool propagate(const lit &q) override
    {
      for (auto &b : bounds)
        if (variable(b.p) == variable(q) && sat->value(b.p) == True)
        {
          ++fired;
          bool ok = b.lower ? lra->set_lb(b.v, b.val, b.p) : lra->set_ub(b.v, b.val, b.p);
          if (!ok)
          {
            ++conflicts;
            swap_conflict(*lra);
            return false;
          }
        }
      return true;
    }
    bool check() override { return true; }
    void push() override {}
    void pop() override {}
  };

  struct Net
  {
    sat_core sat;
    lra_theory lra;
    ov_theory ov;
    idl_theory idl;
    rdl_theory rdl;
    ProbeTheory probe;

    z3::context z;
    z3::solver zs;                    // holds Phi_model
    std::vector<z3::expr> phi;        // same, as a list (for rendering / re-use)
    std::map<var, bool> known;        // sat vars the harness created or was handed
    std::vector<lit> user_bools;      // literals of plain boolean variables
    std::vector<lit> all_lits;        // every literal handed to the harness (bools, theory, reified)
    std::map<var, Meaning> meaning;   // theory vars with a claimed meaning
    std::vector<z3::expr> zlra, zidl, zrdl; // numeric model variables
    std::vector<L> lra_def;           // for derived LRA variables: defining expression (empty = free)
    std::vector<bool> lra_is_derived;
    std::vector<std::unique_ptr<ov_val>> ov_vals;
    std::vector<std::vector<int>> ov_dom; // per ov variable: value ids
    std::vector<z3::expr> zov;        // per ov variable: int const (value id)
    std::vector<bool> dec_undef;      // per standing decision: was the literal unassigned when assumed?
    bool dirty = false;               // something was enqueued at root without propagate()
    bool dead = false;                // a root-level false was returned
    // the history as text; with VERIF_TRACE set every piece is also written to stderr at once (for histories that end in an abort)
    struct TeeLog
    {
      std::ostringstream os;
      bool tee = getenv("VERIF_TRACE") != nullptr;
      template <class T>
      TeeLog &operator<<(const T &v)
      {
        os << v;
        if (tee)
        {
          std::ostringstream t;
          t << v;
          fputs(t.str().c_str(), stderr);
        }
        return *this;
      }
      std::string str() const { return os.str(); }
    } log;
    pbt::Result *res = nullptr;
    std::vector<Pending> pending;
    // feature counters
    long n_conflicts = 0, n_learnt_ge2 = 0, n_theory_lemmas = 0, n_theory_conflicts = 0, n_next = 0, n_backjump2 = 0, n_pops = 0, n_z3 = 0;
    bool check_lemmas = true;

    Net() : lra(sat), ov(sat), idl(sat), rdl(sat), probe(sat), zs(z)
    {
      known[FALSE_var] = true;
      z3::params p(z);
      p.set("timeout", 20000u);
      zs.set(p);
      zidl.push_back(z.int_const("i0"));
      zrdl.push_back(z.real_const("r0"));
      add_phi(zidl[0] == 0);
      add_phi(zrdl[0] == 0);
      verif::get_hooks().ctx = this;
      verif::get_hooks().on_clause = &Net::on_clause_cb;
    }
    ~Net()
    {
      verif::get_hooks().on_clause = nullptr;
      verif::get_hooks().ctx = nullptr;
    }

    // ---- reporting ------------------------------------------------------------------------------------------
    void violation(const std::string &m)
    {
      if (!res->violation)
      {
        res->violation = true;
        res->message = m;
      }
      log << "  !! " << m << "\n";
    }
    void foreign(const std::string &m)
    {
      if (res->foreign.size() < 4)
        res->foreign.push_back(m);
      log << "  (foreign) " << m << "\n";
    }

    // ---- z3 helpers -----------------------------------------------------------------------------------------
    void add_phi(const z3::expr &e)
    {
      phi.push_back(e);
      zs.add(e);
    }
    z3::expr zb(var v) { return z.bool_const(("b" + std::to_string(v)).c_str()); }
    z3::expr zl(const lit &p)
    {
      if (variable(p) == FALSE_var)
        return z.bool_val(!sign(p));
      z3::expr b = zb(variable(p));
      return sign(p) ? b : !b;
    }
    z3::expr zq(const mpq_class &q) { return z.real_val(q.get_str().c_str()); }
    z3::expr zlin(const L &l, const std::vector<z3::expr> &vars)
    {
      z3::expr e = zq(l.k);
      for (auto &t : l.c)
        e = e + zq(t.second) * vars.at(t.first);
      return e;
    }
    z3::expr zrel(int rel, const z3::expr &a, const z3::expr &b)
    {
      switch (rel)
      {
      case LT: return a < b;
      case LEQ: return a <= b;
      case EQ: return a == b;
      case GEQ: return a >= b;
      default: return a > b;
      }
    }
    // to - from <= a + k*eps over the reals: strict iff k < 0
    z3::expr zdist_r(size_t from, size_t to, const E &d)
    {
      z3::expr diff = zrdl.at(to) - zrdl.at(from);
      if (!d.r.finite())
        return z.bool_val(d.r.inf > 0);
      return d.e.sgn() < 0 ? diff < zq(d.r.v) : diff <= zq(d.r.v);
    }
    z3::expr zdist_i(size_t from, size_t to, const mpz_class &d)
    {
      return zidl.at(to) - zidl.at(from) <= z.int_val(d.get_str().c_str());
    }
    z3::expr zmeaning(const Meaning &m)
    {
      switch (m.kind)
      {
      case Meaning::LRA_REL: return zrel(m.rel, zlin(m.left, zlra), zlin(m.right, zlra));
      case Meaning::RDL_REL: return zrel(m.rel, zlin(m.left, zrdl), zlin(m.right, zrdl));
      case Meaning::IDL_REL:
      {
        // integer variables, rational coefficients: to_real on each variable
        std::vector<z3::expr> rv;
        for (auto &e : zidl) rv.push_back(z3::to_real(e));
        return zrel(m.rel, zlin(m.left, rv), zlin(m.right, rv));
      }
      case Meaning::RDL_DIST: return zdist_r(m.from, m.to, m.dist);
      case Meaning::IDL_DIST: return zdist_i(m.from, m.to, m.dist.r.v.get_num());
      case Meaning::OV_VAL: return zov.at(m.ov) == m.val;
      case Meaning::OV_EQ: return zov.at(m.ov) == zov.at(m.ov2);
      default: return z.bool_val(true);
      }
    }
    z3::check_result zcheck(const std::vector<z3::expr> &extra)
    {
      ++n_z3;
      zs.push();
      for (auto &e : extra) zs.add(e);
      z3::check_result r = zs.check();
      zs.pop();
      return r;
    }
    std::vector<z3::expr> zD()
    {
      std::vector<z3::expr> d;
      for (auto &p : sat.get_decisions()) d.push_back(zl(p));
      return d;
    }

    // ---- literal registry -----------------------------------------------------------------------------------
    void know(const lit &p)
    {
      if (variable(p) == FALSE_var) return;
      if (!known.count(variable(p)))
      {
        known[variable(p)] = true;
        all_lits.push_back(lit(variable(p)));
      }
    }
    bool is_known(const lit &p) { return known.count(variable(p)) != 0; }

    // ---- H1 callback -----------------------------------------------------------------------------------------
    static void on_clause_cb(void *ctx, const sat_core &, const std::vector<lit> &clause, int origin)
    {
      Net *n = static_cast<Net *>(ctx);
      n->on_clause(clause, origin);
    }
    // definitions the model does not have: clause database, root-level values of internal variables, dumped
    // meanings of theory variables that were never handed to the harness
    std::vector<z3::expr> impl_defs()
    {
      std::vector<z3::expr> d;
      for (auto &cl : sat.verif_clauses())
      {
        z3::expr_vector ev(z);
        for (auto &p : cl) ev.push_back(zl(p));
        d.push_back(z3::mk_or(ev));
      }
      for (var v = 1; v < sat.verif_n_vars(); ++v)
        if (!known.count(v) && sat.value(v) != Undefined && sat.verif_level(v) == 0)
          d.push_back(sat.value(v) == True ? zb(v) : !zb(v));
      ensure_internal_numeric();
      for (auto &a : lra.verif_assertions())
        if (!meaning.count(variable(a.b)))
        {
          E v = toE(a.v);
          z3::expr x = zlra.at(a.x);
          z3::expr m = a.is_leq ? (v.e.sgn() < 0 ? x < zq(v.r.v) : x <= zq(v.r.v)) : (v.e.sgn() > 0 ? x > zq(v.r.v) : x >= zq(v.r.v));
          d.push_back(zl(a.b) == m);
        }
      for (auto &df : lra.verif_defs())
        d.push_back(zlra.at(df.first) == zlin(fromLin(df.second), zlra));
      for (auto &c : idl.verif_constraints())
        if (!meaning.count(variable(c.b)))
          d.push_back(zl(c.b) == zdist_i(c.from, c.to, mpz_class((long)c.dist)));
      for (auto &c : rdl.verif_constraints())
        if (!meaning.count(variable(c.b)))
          d.push_back(zl(c.b) == zdist_r(c.from, c.to, toE(c.dist)));
      return d;
    }
    static L fromLin(const lin &l)
    {
      L r;
      for (auto &t : l.vars) r.c[t.first] = toQ(t.second).v;
      r.k = toQ(l.known_term).v;
      r.norm();
      return r;
    }
    void ensure_internal_numeric()
    {
      while (zlra.size() < lra.verif_n_vars())
      {
        zlra.push_back(z.real_const(("x" + std::to_string(zlra.size())).c_str()));
        lra_def.emplace_back();
        lra_is_derived.push_back(true); // internal slack
      }
    }
    std::string cls(const std::vector<lit> &c)
    {
      std::string s = "{";
      for (size_t i = 0; i < c.size(); ++i) s += (i ? ", " : "") + ls(c[i]);
      return s + "}";
    }
    void on_clause(const std::vector<lit> &clause, int origin)
    {
      static const char *on[] = {"CONFLICT", "THEORY_LEMMA", "THEORY_CONFLICT", "NEXT", "THEORY_ROOT_CONFLICT"};
      log << "    [" << on[origin] << " " << cls(clause) << "]\n";
      switch (origin)
      {
      case verif::CONFLICT:
        ++n_conflicts;
        if (clause.size() >= 2) ++n_learnt_ge2;
        break;
      case verif::THEORY_LEMMA: ++n_theory_lemmas; break;
      case verif::THEORY_CONFLICT:
      case verif::THEORY_ROOT_CONFLICT: ++n_theory_conflicts; break;
      case verif::NEXT: ++n_next; break;
      }
      if (origin == verif::NEXT)
      { // an added clause, not an inferred one
        z3::expr_vector ev(z);
        for (auto &p : clause) ev.push_back(zl(p));
        add_phi(z3::mk_or(ev));
        return;
      }
      if (!check_lemmas)
        return;
      // entailment at the moment the clause is learnt: Phi_model & implementation definitions & !clause unsat
      std::vector<z3::expr> ex = impl_defs();
      for (auto &e : strong) ex.push_back(e);
      for (auto &p : clause) ex.push_back(!zl(p));
      z3::check_result r = zcheck(ex);
      if (r == z3::sat)
        lemma_failures.push_back(std::string(on[origin]) + " clause " + cls(clause) + " is not entailed by the clauses and the theories");
    }
    std::vector<std::string> lemma_failures;
    // Reverse direction of one-directional literals (cardinality => literal). The statement leaves open whether an
    // at-most-one / exactly-one literal is an implication or an equivalence, so inferences are judged against the
    // equivalence (soundness oracles S1/S4 add these) and verdicts against the implication (S2/S3 do not).
    std::vector<z3::expr> strong;

    // ---- variable creation --------------------------------------------------------------------------------------
    lit new_bool()
    {
      lit p(sat.new_var());
      know(p);
      user_bools.push_back(p);
      log << "  bool " << ls(p) << "\n";
      return p;
    }
    size_t new_lra()
    {
      ensure_internal_numeric();
      size_t v = lra.new_var();
      zlra.push_back(z.real_const(("x" + std::to_string(v)).c_str()));
      lra_def.emplace_back();
      lra_is_derived.push_back(false);
      log << "  lra var x" << v << "\n";
      return v;
    }
    size_t new_lra_derived(const L &l)
    {
      ensure_internal_numeric();
      size_t before = lra.verif_n_vars();
      size_t v = lra.new_var(toLin(l));
      ensure_internal_numeric();
      log << "  lra derived x" << v << " := " << qx::str(l) << (v < before ? " (shared)" : "") << "\n";
      // claimed: v equals the expression (whether fresh or shared)
      add_phi(zlra.at(v) == zlin(l, zlra));
      derived_defs.push_back({v, l});
      return v;
    }
    std::vector<std::pair<size_t, L>> derived_defs;
    size_t new_idl()
    {
      size_t v = idl.new_var();
      zidl.push_back(z.int_const(("i" + std::to_string(v)).c_str()));
      log << "  idl point i" << v << "\n";
      return v;
    }
    size_t new_rdl()
    {
      size_t v = rdl.new_var();
      zrdl.push_back(z.real_const(("r" + std::to_string(v)).c_str()));
      log << "  rdl point r" << v << "\n";
      return v;
    }
    size_t new_ov(const std::vector<int> &dom)
    {
      while ((int)ov_vals.size() < 8) ov_vals.emplace_back(new ov_val((int)ov_vals.size()));
      std::vector<var_value *> items;
      for (int d : dom) items.push_back(ov_vals.at(d).get());
      size_t v = ov.new_var(items, true);
      dirty = true;
      ov_dom.push_back(dom);
      zov.push_back(z.int_const(("o" + std::to_string(v)).c_str()));
      z3::expr_vector in(z);
      for (int d : dom) in.push_back(zov[v] == d);
      add_phi(z3::mk_or(in));
      log << "  ov var o" << v << " in {";
      for (int d : dom) log << d << " ";
      log << "}:";
      for (int d : dom)
      {
        lit p = ov.allows(v, *ov_vals[d]);
        log << " " << d << "->" << ls(p);
        know(p);
        if (variable(p) != FALSE_var && !meaning.count(variable(p)))
        {
          Meaning m;
          m.kind = Meaning::OV_VAL;
          m.ov = v;
          m.val = d;
          meaning[variable(p)] = m;
          add_phi(zl(p) == zmeaning(m));
        }
      }
      log << "\n";
      return v;
    }

    // registers the claimed meaning of a returned theory literal
    void claim(const lit &p, const Meaning &m)
    {
      know(p);
      z3::expr zm = zmeaning(m);
      add_phi(zl(p) == zm);
      if (variable(p) != FALSE_var && !meaning.count(variable(p)))
      {
        Meaning mm = m;
        if (!sign(p))
        { // keep the meaning of the positive literal: only used for DIST kinds, which are always positive
        }
        meaning[variable(p)] = mm;
        meaning_sign[variable(p)] = sign(p);
      }
    }
    std::map<var, bool> meaning_sign;

    // ---- operations on the network -----------------------------------------------------------------------------
    void sync_decisions()
    {
      size_t n = sat.get_decisions().size();
      if (dec_undef.size() > n) dec_undef.resize(n);
    }
    bool do_propagate()
    {
      bool r = sat.propagate();
      dirty = false;
      sync_decisions();
      log << "  propagate -> " << (r ? "true" : "false") << "  (level " << sat.decision_level() << ")\n";
      return r;
    }
    void settle()
    {
      if (dirty && !dead)
      {
        std::vector<z3::expr> none;
        bool r = do_propagate();
        if (!r) on_false_root("propagate()");
      }
    }
    void on_false_root(const std::string &what)
    {
      dead = true;
      if (!sat.root_level())
        return; // not a root-level verdict
      // S2: a root-level false is justified only if Phi is unsatisfiable
      std::vector<z3::expr> none = strong;
      if (zcheck(none) == z3::sat)
        s2_failures.push_back(what + " returned false at root level although the clauses and theories are satisfiable");
    }
    std::vector<std::string> s2_failures;

    bool do_new_clause(std::vector<lit> c)
    {
      z3::expr_vector ev(z);
      for (auto &p : c) ev.push_back(zl(p));
      if (c.empty()) add_phi(z.bool_val(false));
      else add_phi(z3::mk_or(ev));
      bool r = sat.new_clause(c);
      dirty = true;
      log << "  new_clause " << cls(c) << " -> " << (r ? "true" : "false") << "\n";
      if (!r) on_false_root("new_clause");
      return r;
    }
    // returns false if the network died
    bool do_assume(const lit &p)
    {
      settle();
      if (dead) return false;
      std::vector<z3::expr> before = zD();
      bool undef = sat.value(p) == Undefined;
      size_t lvl = sat.decision_level();
      if (log.tee)
      { // trace mode: the state of the clause database right before the decision
        log << "  [about to assume " << ls(p) << "]\n";
        for (auto &cl : sat.verif_clauses())
        {
          int nf = 0, nu = 0, nt = 0;
          for (auto &l : cl) (sat.value(l) == False ? nf : sat.value(l) == True ? nt : nu)++;
          if (nt == 0 && nu <= 1)
          {
            log << (nu == 0 ? "    FALSIFIED clause {" : "    UNIT-PENDING clause {");
            for (auto &l : cl) log << ls(l) << (sat.value(l) == False ? "=F " : sat.value(l) == True ? "=T " : "=U ");
            log << "}\n";
          }
        }
      }
      bool r = sat.assume(p);
      dec_undef.push_back(undef);
      sync_decisions();
      log << "  assume " << ls(p) << " -> " << (r ? "true" : "false") << "  (level " << lvl << " -> " << sat.decision_level() << ")\n";
      if (lvl + 1 > sat.decision_level() + 1) ++n_backjump2;
      if (!r)
      {
        // S2: Phi & D_before & p unsat
        before.push_back(zl(p));
        for (auto &e : strong) before.push_back(e);
        if (zcheck(before) == z3::sat)
          s2_failures.push_back("assume(" + ls(p) + ") returned false although the clauses, theories, standing decisions and the assumption are satisfiable");
        if (sat.root_level())
          dead = true;
        else
        { // the caller's move after a failed assumption (what check() does): undo it
          sat.pop();
          ++n_pops;
          sync_decisions();
          log << "  pop (after failed assume)\n";
        }
      }
      return !dead;
    }
    void do_pop()
    {
      settle();
      if (dead || sat.root_level()) return;
      sat.pop();
      ++n_pops;
      sync_decisions();
      log << "  pop -> level " << sat.decision_level() << "\n";
    }
    void do_next()
    {
      settle();
      // precondition taken from the callers: next() is only used by the planner, whose decisions are always taken on unassigned
      // literals (solver::take_decision asserts it). A no-good built from a decision on an ALREADY TRUE literal contains a literal
      // that is false at a lower level than next() assumes; check() makes such decisions but never calls next().
      if (dead || sat.root_level() || dec_undef.empty() || std::find(dec_undef.begin(), dec_undef.end(), false) != dec_undef.end()) return;
      bool r = sat.next();
      sync_decisions();
      log << "  next -> " << (r ? "true" : "false") << "  (level " << sat.decision_level() << ")\n";
      if (!r) on_false_root("next()");
    }
    void do_check(const std::vector<lit> &lits)
    {
      settle();
      if (dead) return;
      std::vector<z3::expr> before = zD();
      bool r = sat.check(lits);
      sync_decisions();
      log << "  check " << cls(lits) << " -> " << (r ? "true" : "false") << "  (level " << sat.decision_level() << ")\n";
      if (!r)
      {
        for (auto &p : lits) before.push_back(zl(p));
        for (auto &e : strong) before.push_back(e);
        if (zcheck(before) == z3::sat)
          s2_failures.push_back("check(" + cls(lits) + ") returned false although clauses, theories, decisions and the given literals are satisfiable");
        if (sat.root_level())
        { // the failure may have been a root-level conflict, after which the network is dead by contract: that is the case
          // exactly when the clauses and theories are unsatisfiable on their own
          std::vector<z3::expr> none = strong;
          if (zcheck(none) != z3::sat)
            dead = true;
        }
      }
    }
    void do_simplify()
    {
      if (dead || !sat.root_level()) return;
      bool r = sat.simplify_db();
      dirty = false;
      log << "  simplify_db -> " << (r ? "true" : "false") << "\n";
      if (!r) on_false_root("simplify_db()");
    }

    // ---- oracles ------------------------------------------------------------------------------------------------
    // S1: every value reported for a known literal is entailed by Phi_model & D (vacuity-aware)
    void oracle_values(std::vector<std::string> &fails)
    {
      if (dead) return;
      std::vector<z3::expr> d = zD();
      for (auto &e : strong) d.push_back(e);
      z3::expr_vector assigned(z);
      std::vector<lit> as;
      for (auto &p : all_lits)
      {
        lbool v = sat.value(p);
        if (v == Undefined) continue;
        lit tl = v == True ? p : !p;
        assigned.push_back(zl(tl));
        as.push_back(tl);
      }
      if (as.empty()) return;
      std::vector<z3::expr> q = d;
      q.push_back(!z3::mk_and(assigned));
      if (zcheck(q) != z3::sat) return;
      // which literal? (only reached on failure)
      for (auto &tl : as)
      {
        std::vector<z3::expr> q1 = d;
        q1.push_back(!zl(tl));
        if (zcheck(q1) == z3::sat)
        {
          fails.push_back("the network reports " + ls(tl) + " = true at level " + std::to_string(sat.decision_level()) +
                          ", which is not a consequence of the clauses, the theories and the standing decisions");
          return;
        }
      }
    }
    // S3: when every known variable is assigned (and propagation succeeded) the assignment is a model
    void oracle_total(std::vector<std::string> &fails)
    {
      if (dead || dirty) return;
      std::vector<z3::expr> q;
      for (auto &p : all_lits)
      {
        lbool v = sat.value(p);
        if (v == Undefined) return;
        q.push_back(v == True ? zl(p) : !zl(p));
      }
      if (all_lits.empty()) return;
      // "every variable" includes the ones the network created internally (pieces of an equality, Tseitin variables)
      for (var v = 1; v < sat.verif_n_vars(); ++v)
        if (sat.value(v) == Undefined) return;
      ++n_total_assignments;
      if (zcheck(q) == z3::unsat)
        fails.push_back("every variable is assigned and propagation succeeded, but the assignment falsifies a clause or is theory-inconsistent");
    }
    long n_total_assignments = 0;

    // LRA model check (C09): values satisfy asserted relation literals, derived definitions, bounds; bounds contain all solutions
    void oracle_lra(std::vector<std::string> &fails, bool with_bounds_z3)
    {
      if (dead || dirty) return;
      ensure_internal_numeric();
      size_t n = lra.verif_n_vars();
      std::vector<E> val(n);
      for (size_t i = 0; i < n; ++i) val[i] = toE(lra.value(i));
      auto ev = [&](const L &l) {
        E r{Q(l.k)};
        for (auto &t : l.c) r = qx::eadd(r, qx::escale(val.at(t.first), Q(t.second)));
        return r;
      };
      for (auto &kv : meaning)
      {
        if (kv.second.kind != Meaning::LRA_REL) continue;
        lbool v = sat.value(kv.first);
        if (v == Undefined) continue;
        bool lit_true = (v == True) == meaning_sign[kv.first];
        // a false equality literal is a disjunction the network has not decided yet: nothing to demand of the values
        if (kv.second.rel == EQ && !lit_true) continue;
        int c = qx::cmp(ev(kv.second.left), ev(kv.second.right));
        bool h = holds(kv.second.rel, c);
        if (h != lit_true)
          fails.push_back("LRA values do not satisfy an asserted literal: b" + std::to_string(kv.first) + " is " + lbs(v) + " but " + qx::str(kv.second.left) + " " +
                          rels(kv.second.rel) + " " + qx::str(kv.second.right) + " evaluates to " + (h ? "true" : "false") + " (left=" + qx::str(ev(kv.second.left)) +
                          ", right=" + qx::str(ev(kv.second.right)) + ")");
      }
      // the theory's own atoms (bounds on possibly internal slack variables) and slack definitions
      for (auto &a : lra.verif_assertions())
      {
        lbool v = sat.value(a.b);
        if (v == Undefined) continue;
        int c = qx::cmp(val.at(a.x), toE(a.v));
        bool h = a.is_leq ? c <= 0 : c >= 0;
        if (h != (v == True))
          fails.push_back("LRA value of x" + std::to_string(a.x) + " = " + qx::str(val.at(a.x)) + " contradicts the asserted atom " + ls(a.b) + " (x" + std::to_string(a.x) +
                          (a.is_leq ? " <= " : " >= ") + qx::str(toE(a.v)) + ") which is " + lbs(v));
      }
      for (auto &df : lra.verif_defs())
        if (qx::cmp(val.at(df.first), ev(fromLin(df.second))) != 0)
          fails.push_back("LRA slack variable x" + std::to_string(df.first) + " = " + qx::str(val.at(df.first)) + " differs from its defining expression");
      for (auto &d : derived_defs)
        if (qx::cmp(val.at(d.first), ev(d.second)) != 0)
          fails.push_back("LRA derived variable x" + std::to_string(d.first) + " = " + qx::str(val.at(d.first)) + " differs from its defining expression " + qx::str(d.second) +
                          " = " + qx::str(ev(d.second)));
      for (size_t i = 0; i < n; ++i)
      {
        E lb = toE(lra.lb(i)), ub = toE(lra.ub(i));
        if (qx::cmp(val[i], lb) < 0 || qx::cmp(val[i], ub) > 0)
          fails.push_back("LRA value of x" + std::to_string(i) + " = " + qx::str(val[i]) + " outside its reported bounds [" + qx::str(lb) + ", " + qx::str(ub) + "]");
      }
      if (with_bounds_z3 && fails.empty())
      {
        std::vector<z3::expr> d = zD();
        if (zcheck(d) != z3::sat) return; // vacuous
        for (size_t i = 0; i < n; ++i)
        {
          if (i < lra_is_derived.size() && lra_is_derived[i] && !is_harness_derived(i)) continue; // internal slack: no model variable semantics
          E lb = toE(lra.lb(i)), ub = toE(lra.ub(i));
          if (lb.r.finite())
          {
            std::vector<z3::expr> q = d;
            q.push_back(lb.e.sgn() > 0 ? zlra[i] <= zq(lb.r.v) : zlra[i] < zq(lb.r.v));
            if (zcheck(q) == z3::sat)
              fails.push_back("LRA lower bound " + qx::str(lb) + " of x" + std::to_string(i) + " excludes a real solution of the asserted constraints");
          }
          if (ub.r.finite())
          {
            std::vector<z3::expr> q = d;
            q.push_back(ub.e.sgn() < 0 ? zlra[i] >= zq(ub.r.v) : zlra[i] > zq(ub.r.v));
            if (zcheck(q) == z3::sat)
              fails.push_back("LRA upper bound " + qx::str(ub) + " of x" + std::to_string(i) + " excludes a real solution of the asserted constraints");
          }
        }
      }
    }
    bool is_harness_derived(size_t v)
    {
      for (auto &d : derived_defs)
        if (d.first == v) return true;
      return false;
    }

    void flush_lemma_failures(std::vector<std::string> &fails)
    {
      for (auto &f : lemma_failures) fails.push_back(f);
      lemma_failures.clear();
    }
    void flush_s2(std::vector<std::string> &fails)
    {
      for (auto &f : s2_failures) fails.push_back(f);
      s2_failures.clear();
    }
  };
} // namespace net
