// C15: rational / inf_rational / lin arithmetic against GMP.
#include "pbt.h"
#include "pbt_fuzz.h"
#include "qx.h"
#include "rational.h"
#include "inf_rational.h"
#include "lin.h"
#include <numeric>
#include <sstream>

using namespace smt;
using qx::Q;
using qx::E;
using qx::L;

namespace
{
  struct Ctx
  {
    pbt::Tape &t;
    pbt::Result &r;
    const pbt::Options &o;
    std::ostringstream log;
    bool nt = false;
  };

  std::string show(const rational &x) { return std::to_string(x.numerator()) + "/" + std::to_string(x.denominator()); }
  std::string show(const inf_rational &x) { return "(" + show(x.get_rational()) + ", " + show(x.get_infinitesimal()) + "eps)"; }
  std::string show(const lin &l)
  {
    std::string s = "{";
    for (auto &t : l.vars)
      s += "x" + std::to_string(t.first) + ":" + show(t.second) + " ";
    return s + "| k=" + show(l.known_term) + "}";
  }

  bool canonical(const rational &x)
  {
    I n = x.numerator(), d = x.denominator();
    if (d == 0)
      return n == 1 || n == -1;
    if (d < 0)
      return false;
    if (n == 0)
      return d == 1;
    return std::gcd(n < 0 ? -n : n, d) == 1;
  }
  Q toQ(const rational &x)
  {
    if (x.denominator() == 0)
      return x.numerator() > 0 ? Q::pinf() : Q::ninf();
    return Q(x.numerator(), x.denominator());
  }
  E toE(const inf_rational &x) { return E(toQ(x.get_rational()), toQ(x.get_infinitesimal())); }
  L toL(const lin &l)
  {
    L r;
    for (auto &t : l.vars)
      r.c[t.first] = toQ(t.second).v;
    r.k = toQ(l.known_term).v;
    r.norm();
    return r;
  }

  // ---- operand generators -------------------------------------------------------------------------------
  I gen_I(Ctx &c)
  {
    switch (c.t.pick(4))
    {
    case 0: return (I)c.t.range(-3, 3);
    case 1: return (I)c.t.range(-40, 40);
    default: return (I)c.t.range(-32768, 32767);
    }
  }
  // kind classes: returned through flags
  rational gen_rat(Ctx &c, bool allow_inf, bool *is_inf = nullptr, bool *frac = nullptr)
  {
    if (is_inf) *is_inf = false;
    if (frac) *frac = false;
    switch (c.t.pick(8))
    {
    case 0: return rational(0);
    case 1: return rational((I)c.t.range(-3, 3));
    case 2:
      if (allow_inf)
      {
        if (is_inf) *is_inf = true;
        // both spellings of an infinity: the constants and a non-reduced constructor call
        switch (c.t.pick(4))
        {
        case 0: return rational::POSITIVE_INFINITY;
        case 1: return rational::NEGATIVE_INFINITY;
        case 2: return rational((I)c.t.range(1, 9), 0);
        default: return rational((I)-c.t.range(1, 9), 0);
        }
      }
      return rational((I)c.t.range(-9, 9));
    case 3:
    { // small fractions: shared factors are likely
      I n = c.t.range(-12, 12), d = c.t.range(1, 12);
      if (c.t.flip()) d = -d; // non-reduced / negative-denominator constructor input
      rational x(n, d);
      if (frac) *frac = x.denominator() > 1;
      return x;
    }
    default:
    {
      I n = gen_I(c), d = gen_I(c);
      if (d == 0) d = 7;
      rational x(n, d);
      if (frac) *frac = x.denominator() > 1;
      return x;
    }
    }
  }
  inf_rational gen_inf(Ctx &c, bool allow_inf, bool *is_inf = nullptr)
  {
    bool i = false;
    rational r = gen_rat(c, allow_inf, &i);
    if (is_inf) *is_inf = i;
    if (i)
      return inf_rational(r);
    switch (c.t.pick(4))
    {
    case 0: return inf_rational(r);
    case 1: return inf_rational(r, (I)c.t.range(-2, 2));
    default: return inf_rational(r, gen_rat(c, false));
    }
  }
  lin gen_lin(Ctx &c, bool *has_k = nullptr)
  {
    lin l;
    int n = c.t.range(0, 5);
    for (int i = 0; i < n; ++i)
    {
      var v = c.t.pick(6);
      rational co = gen_rat(c, false);
      if (c.t.chance(1, 8))
        co = rational(0); // a stored zero coefficient equals an absent one
      l.vars[v] = co;
    }
    if (c.t.chance(3, 4))
      l.known_term = gen_rat(c, false);
    if (has_k) *has_k = l.known_term != rational::ZERO;
    return l;
  }

  template <typename A, typename B>
  bool fail(Ctx &c, const std::string &what, const A &got, const B &exp)
  {
    c.r.violation = true;
    std::ostringstream m;
    m << what << " : got " << got << " expected " << exp;
    c.r.message = m.str();
    c.log << "  !! " << c.r.message << "\n";
    return false;
  }

  bool check_rat(Ctx &c, const std::string &what, const rational &got, const std::optional<Q> &exp)
  {
    c.log << "  " << what << " -> " << show(got) << "\n";
    if (!exp)
      return true; // undefined combination: not part of the domain
    if (!canonical(got))
      return fail(c, what + " (result not canonical)", show(got), qx::str(*exp));
    if (toQ(got) != *exp)
      return fail(c, what, show(got), qx::str(*exp));
    return true;
  }
  bool check_inf(Ctx &c, const std::string &what, const inf_rational &got, const E &exp)
  {
    c.log << "  " << what << " -> " << show(got) << "\n";
    if (!canonical(got.get_rational()) || !canonical(got.get_infinitesimal()))
      return fail(c, what + " (result not canonical)", show(got), qx::str(exp));
    if (toE(got) != exp)
      return fail(c, what, show(got), qx::str(exp));
    return true;
  }
  bool check_lin(Ctx &c, const std::string &what, const lin &got, const L &exp)
  {
    c.log << "  " << what << " -> " << show(got) << "\n";
    for (auto &t : got.vars)
      if (!canonical(t.second) || is_infinite(t.second))
        return fail(c, what + " (coefficient not canonical)", show(got), qx::str(exp));
    if (!canonical(got.known_term))
      return fail(c, what + " (constant not canonical)", show(got), qx::str(exp));
    if (!qx::leq(toL(got), exp))
      return fail(c, what, show(got), qx::str(exp));
    return true;
  }
  bool check_bool(Ctx &c, const std::string &what, bool got, bool exp)
  {
    c.log << "  " << what << " -> " << (got ? "true" : "false") << "\n";
    if (got != exp)
      return fail(c, what, got ? "true" : "false", exp ? "true" : "false");
    return true;
  }

  // ---- rational ---------------------------------------------------------------------------------------
  bool op_rational(Ctx &c)
  {
    bool ai, bi, af, bf;
    rational a = gen_rat(c, true, &ai, &af), b = gen_rat(c, true, &bi, &bf);
    I k = gen_I(c);
    Q qa = toQ(a), qb = toQ(b), qk(k);
    if (!canonical(a))
      return fail(c, "constructor result not canonical", show(a), "canonical form");
    if (ai || bi)
      c.r.classes.insert("rational:infinity");
    if (af && bf && a.denominator() != b.denominator())
    {
      c.nt = true;
      c.r.classes.insert("rational:different denominators");
    }
    if (ai || bi) c.nt = true;
    std::string sa = show(a), sb = show(b), sk = std::to_string(k);
    int op = c.t.pick(34);
    // undefined combinations are not generated: the second operand is replaced by a harmless one
    auto defined2 = [&](const std::optional<Q> &e) { return e.has_value(); };
    switch (op)
    {
    case 0: { auto e = qx::add(qa, qb); if (!defined2(e)) return true; return check_rat(c, sa + " + " + sb, a + b, e); }
    case 1: { auto e = qx::sub(qa, qb); if (!defined2(e)) return true; return check_rat(c, sa + " - " + sb, a - b, e); }
    case 2: { auto e = qx::mul(qa, qb); if (!defined2(e)) return true; return check_rat(c, sa + " * " + sb, a * b, e); }
    case 3: { auto e = qx::div(qa, qb); if (!defined2(e)) return true; return check_rat(c, sa + " / " + sb, a / b, e); }
    case 4: { auto e = qx::add(qa, qb); if (!defined2(e)) return true; rational x = a; x += b; return check_rat(c, sa + " += " + sb, x, e); }
    case 5: { auto e = qx::sub(qa, qb); if (!defined2(e)) return true; rational x = a; x -= b; return check_rat(c, sa + " -= " + sb, x, e); }
    case 6: { auto e = qx::mul(qa, qb); if (!defined2(e)) return true; rational x = a; x *= b; return check_rat(c, sa + " *= " + sb, x, e); }
    case 7: { auto e = qx::div(qa, qb); if (!defined2(e)) return true; rational x = a; x /= b; return check_rat(c, sa + " /= " + sb, x, e); }
    case 8: { auto e = qx::add(qa, qk); return check_rat(c, sa + " + I " + sk, a + k, e); }
    case 9: { auto e = qx::sub(qa, qk); return check_rat(c, sa + " - I " + sk, a - k, e); }
    case 10: { auto e = qx::mul(qa, qk); if (!defined2(e)) return true; return check_rat(c, sa + " * I " + sk, a * k, e); }
    case 11: { auto e = qx::div(qa, qk); if (!defined2(e)) return true; return check_rat(c, sa + " / I " + sk, a / k, e); }
    case 12: { auto e = qx::add(qa, qk); rational x = a; x += k; return check_rat(c, sa + " += I " + sk, x, e); }
    case 13: { auto e = qx::sub(qa, qk); rational x = a; x -= k; return check_rat(c, sa + " -= I " + sk, x, e); }
    case 14: { auto e = qx::mul(qa, qk); if (!defined2(e)) return true; rational x = a; x *= k; return check_rat(c, sa + " *= I " + sk, x, e); }
    case 15: { auto e = qx::div(qa, qk); if (!defined2(e)) return true; rational x = a; x /= k; return check_rat(c, sa + " /= I " + sk, x, e); }
    case 16: { auto e = qx::add(qk, qa); return check_rat(c, "I " + sk + " + " + sa, k + a, e); }
    case 17: { auto e = qx::sub(qk, qa); return check_rat(c, "I " + sk + " - " + sa, k - a, e); }
    case 18: { auto e = qx::mul(qk, qa); if (!defined2(e)) return true; return check_rat(c, "I " + sk + " * " + sa, k * a, e); }
    case 19: { auto e = qx::div(qk, qa); if (!defined2(e)) return true; return check_rat(c, "I " + sk + " / " + sa, k / a, e); }
    case 20: return check_rat(c, "-(" + sa + ")", -a, qx::neg(qa));
    case 21: return check_bool(c, sa + " < " + sb, a < b, qx::cmp(qa, qb) < 0);
    case 22: return check_bool(c, sa + " <= " + sb, a <= b, qx::cmp(qa, qb) <= 0);
    case 23: return check_bool(c, sa + " == " + sb, a == b, qx::cmp(qa, qb) == 0);
    case 24: return check_bool(c, sa + " >= " + sb, a >= b, qx::cmp(qa, qb) >= 0);
    case 25: return check_bool(c, sa + " > " + sb, a > b, qx::cmp(qa, qb) > 0);
    case 26: return check_bool(c, sa + " != " + sb, a != b, qx::cmp(qa, qb) != 0);
    case 27: return check_bool(c, sa + " < I " + sk, a < k, qx::cmp(qa, qk) < 0);
    case 28: return check_bool(c, sa + " <= I " + sk, a <= k, qx::cmp(qa, qk) <= 0);
    case 29: return check_bool(c, sa + " == I " + sk, a == k, qx::cmp(qa, qk) == 0);
    case 30: return check_bool(c, sa + " >= I " + sk, a >= k, qx::cmp(qa, qk) >= 0);
    case 31: return check_bool(c, sa + " > I " + sk, a > k, qx::cmp(qa, qk) > 0);
    case 32: return check_bool(c, sa + " != I " + sk, a != k, qx::cmp(qa, qk) != 0);
    default:
    { // sign predicates
      bool ok = check_bool(c, "is_positive(" + sa + ")", is_positive(a), qa.sgn() > 0) && check_bool(c, "is_negative(" + sa + ")", is_negative(a), qa.sgn() < 0) &&
                check_bool(c, "is_zero(" + sa + ")", is_zero(a), qa.sgn() == 0) && check_bool(c, "is_infinite(" + sa + ")", is_infinite(a), !qa.finite()) &&
                check_bool(c, "is_integer(" + sa + ")", is_integer(a), qa.finite() && qa.v.get_den() == 1);
      return ok;
    }
    }
  }

  // ---- inf_rational -----------------------------------------------------------------------------------
  bool op_inf(Ctx &c)
  {
    int op = c.t.pick(40);
    bool cmp_op = op >= 28;
    bool ai = false, bi = false;
    // infinities only where the pair (rational, infinitesimal) still denotes a point of the extended line:
    // comparisons and unary minus
    inf_rational a = gen_inf(c, cmp_op || op == 27, &ai), b = gen_inf(c, cmp_op, &bi);
    rational r = gen_rat(c, cmp_op && op >= 34);
    I k = gen_I(c);
    E ea = toE(a), eb = toE(b);
    Q qr = toQ(r), qk(k);
    std::string sa = show(a), sb = show(b), sr = show(r), sk = std::to_string(k);
    if (!is_zero(a.get_infinitesimal()) && !is_zero(b.get_infinitesimal()))
    {
      c.nt = true;
      c.r.classes.insert("inf_rational:both infinitesimal parts non-zero");
    }
    if (ai || bi)
    {
      c.nt = true;
      c.r.classes.insert("inf_rational:infinity");
    }
    bool rz = is_zero(r), kz = k == 0;
    switch (op)
    {
    case 0: return check_inf(c, sa + " + " + sb, a + b, qx::eadd(ea, eb));
    case 1: return check_inf(c, sa + " - " + sb, a - b, qx::esub(ea, eb));
    case 2: return check_inf(c, sa + " + r " + sr, a + r, qx::eadd(ea, E(qr)));
    case 3: return check_inf(c, sa + " - r " + sr, a - r, qx::esub(ea, E(qr)));
    case 4: return check_inf(c, sa + " * r " + sr, a * r, qx::escale(ea, qr));
    case 5: if (rz) return true; return check_inf(c, sa + " / r " + sr, a / r, qx::escale(ea, *qx::div(Q(1), qr)));
    case 6: return check_inf(c, sa + " + I " + sk, a + k, qx::eadd(ea, E(qk)));
    case 7: return check_inf(c, sa + " - I " + sk, a - k, qx::esub(ea, E(qk)));
    case 8: return check_inf(c, sa + " * I " + sk, a * k, qx::escale(ea, qk));
    case 9: if (kz) return true; return check_inf(c, sa + " / I " + sk, a / k, qx::escale(ea, *qx::div(Q(1), qk)));
    case 10: { inf_rational x = a; x += b; return check_inf(c, sa + " += " + sb, x, qx::eadd(ea, eb)); }
    case 11: { inf_rational x = a; x -= b; return check_inf(c, sa + " -= " + sb, x, qx::esub(ea, eb)); }
    case 12: { inf_rational x = a; x += r; return check_inf(c, sa + " += r " + sr, x, qx::eadd(ea, E(qr))); }
    case 13: { inf_rational x = a; x -= r; return check_inf(c, sa + " -= r " + sr, x, qx::esub(ea, E(qr))); }
    case 14: { inf_rational x = a; x *= r; return check_inf(c, sa + " *= r " + sr, x, qx::escale(ea, qr)); }
    case 15: { if (rz) return true; inf_rational x = a; x /= r; return check_inf(c, sa + " /= r " + sr, x, qx::escale(ea, *qx::div(Q(1), qr))); }
    case 16: { inf_rational x = a; x += k; return check_inf(c, sa + " += I " + sk, x, qx::eadd(ea, E(qk))); }
    case 17: { inf_rational x = a; x -= k; return check_inf(c, sa + " -= I " + sk, x, qx::esub(ea, E(qk))); }
    case 18: { inf_rational x = a; x *= k; return check_inf(c, sa + " *= I " + sk, x, qx::escale(ea, qk)); }
    case 19: { if (kz) return true; inf_rational x = a; x /= k; return check_inf(c, sa + " /= I " + sk, x, qx::escale(ea, *qx::div(Q(1), qk))); }
    case 20: return check_inf(c, "r " + sr + " + " + sa, r + a, qx::eadd(E(qr), ea));
    case 21: return check_inf(c, "r " + sr + " - " + sa, r - a, qx::esub(E(qr), ea));
    case 22: return check_inf(c, "r " + sr + " * " + sa, r * a, qx::escale(ea, qr));
    case 23: return check_inf(c, "I " + sk + " + " + sa, k + a, qx::eadd(E(qk), ea));
    case 24: return check_inf(c, "I " + sk + " - " + sa, k - a, qx::esub(E(qk), ea));
    case 25: return check_inf(c, "I " + sk + " * " + sa, k * a, qx::escale(ea, qk));
    case 26: // scalar / inf_rational is not a component-wise operation: not generated (DESIGN, C15)
    case 27: return check_inf(c, "-" + sa, -a, qx::eneg(ea));
    case 28: return check_bool(c, sa + " < " + sb, a < b, qx::cmp(ea, eb) < 0);
    case 29: return check_bool(c, sa + " <= " + sb, a <= b, qx::cmp(ea, eb) <= 0);
    case 30: return check_bool(c, sa + " == " + sb, a == b, qx::cmp(ea, eb) == 0);
    case 31: return check_bool(c, sa + " >= " + sb, a >= b, qx::cmp(ea, eb) >= 0);
    case 32: return check_bool(c, sa + " > " + sb, a > b, qx::cmp(ea, eb) > 0);
    case 33: return check_bool(c, sa + " != " + sb, a != b, qx::cmp(ea, eb) != 0);
    case 34: return check_bool(c, sa + " < r " + sr, a < r, qx::cmp(ea, E(qr)) < 0) && check_bool(c, sa + " < I " + sk, a < k, qx::cmp(ea, E(qk)) < 0);
    case 35: return check_bool(c, sa + " <= r " + sr, a <= r, qx::cmp(ea, E(qr)) <= 0) && check_bool(c, sa + " <= I " + sk, a <= k, qx::cmp(ea, E(qk)) <= 0);
    case 36: return check_bool(c, sa + " == r " + sr, a == r, qx::cmp(ea, E(qr)) == 0) && check_bool(c, sa + " == I " + sk, a == k, qx::cmp(ea, E(qk)) == 0);
    case 37: return check_bool(c, sa + " >= r " + sr, a >= r, qx::cmp(ea, E(qr)) >= 0) && check_bool(c, sa + " >= I " + sk, a >= k, qx::cmp(ea, E(qk)) >= 0);
    case 38: return check_bool(c, sa + " > r " + sr, a > r, qx::cmp(ea, E(qr)) > 0) && check_bool(c, sa + " > I " + sk, a > k, qx::cmp(ea, E(qk)) > 0);
    default: return check_bool(c, sa + " != r " + sr, a != r, qx::cmp(ea, E(qr)) != 0) && check_bool(c, sa + " != I " + sk, a != k, qx::cmp(ea, E(qk)) != 0);
    }
  }

  // ---- lin --------------------------------------------------------------------------------------------
  bool op_lin(Ctx &c)
  {
    bool ak, bk;
    lin a = gen_lin(c, &ak), b = gen_lin(c, &bk);
    rational r = gen_rat(c, false);
    L la = toL(a), lb = toL(b);
    mpq_class qr = toQ(r).v;
    L lr;
    lr.k = qr;
    std::string sa = show(a), sb = show(b), sr = show(r);
    int op = c.t.pick(16);
    if (op == 0 || op == 3 || op == 9 || op == 11)
      if (ak && bk)
      {
        c.nt = true;
        c.r.classes.insert("lin:non-zero constant on both sides");
      }
    if ((op == 6 || op == 7 || op == 13) && ak && !a.vars.empty())
    {
      c.nt = true;
      c.r.classes.insert("lin:scaling an expression with variables and a constant");
    }
    if (op == 15 && !a.vars.empty())
    {
      c.nt = true;
      c.r.classes.insert("lin:unary minus with variables");
    }
    switch (op)
    {
    case 0: return check_lin(c, sa + " + " + sb, a + b, qx::ladd(la, lb));
    case 1: return check_lin(c, sa + " + r " + sr, a + r, qx::ladd(la, lr));
    case 2: return check_lin(c, "r " + sr + " + " + sa, r + a, qx::ladd(la, lr));
    case 3: return check_lin(c, sa + " - " + sb, a - b, qx::lsub(la, lb));
    case 4: return check_lin(c, sa + " - r " + sr, a - r, qx::lsub(la, lr));
    case 5: return check_lin(c, "r " + sr + " - " + sa, r - a, qx::lsub(lr, la));
    case 6: return check_lin(c, sa + " * r " + sr, a * r, qx::lscale(la, qr));
    case 7: return check_lin(c, "r " + sr + " * " + sa, r * a, qx::lscale(la, qr));
    case 8: if (is_zero(r)) return true; return check_lin(c, sa + " / r " + sr, a / r, qx::lscale(la, 1 / qr));
    case 9: { lin x = a; lin y = (x += b); return check_lin(c, sa + " += " + sb, x, qx::ladd(la, lb)) && check_lin(c, "value of (" + sa + " += " + sb + ")", y, qx::ladd(la, lb)); }
    case 10: { lin x = a; x += r; return check_lin(c, sa + " += r " + sr, x, qx::ladd(la, lr)); }
    case 11: { lin x = a; x -= b; return check_lin(c, sa + " -= " + sb, x, qx::lsub(la, lb)); }
    case 12: { lin x = a; x -= r; return check_lin(c, sa + " -= r " + sr, x, qx::lsub(la, lr)); }
    case 13: { lin x = a; x *= r; return check_lin(c, sa + " *= r " + sr, x, qx::lscale(la, qr)); }
    case 14: { if (is_zero(r)) return true; lin x = a; x /= r; return check_lin(c, sa + " /= r " + sr, x, qx::lscale(la, 1 / qr)); }
    default: return check_lin(c, "-" + sa, -a, qx::lscale(la, -1));
    }
  }

  void case_c15(pbt::Tape &t, pbt::Result &r, const pbt::Options &o)
  {
    Ctx c{t, r, o, {}, false};
    int n = t.range(1, 12);
    for (int i = 0; i < n && !r.violation; ++i)
    {
      int fam = t.pick(3);
      if (o.sub == "rational") fam = 0;
      if (o.sub == "inf_rational") fam = 1;
      if (o.sub == "lin") fam = 2;
      c.log << (fam == 0 ? "rational" : fam == 1 ? "inf_rational" : "lin") << ":\n";
      bool ok = fam == 0 ? op_rational(c) : fam == 1 ? op_inf(c) : op_lin(c);
      (void)ok;
    }
    r.nontrivial = c.nt;
    r.render = c.log.str();
  }

  pbt::Config cfg_for(const pbt::Options &)
  {
    pbt::Config c;
    c.default_budget_ms = 5000;
    c.crash_is_violation = true; // an abort inside a noexcept operator is a wrong result of that operator
    return c;
  }
} // namespace

PBT_MAIN(case_c15, cfg_for)
